"""Self-validation of the checkers: apply one source edit to a scratch copy of /repo/src (outside /repo
and /verif, removed immediately) and run the checks against it.

  selftest/run.py [--props C01,C05] [--ids m1,m2] [--jobs N] [--neutral-only|--firing-only]

A *firing* mutant must make every check listed in `fire` exit 1 with a VIOLATION line; checks in `silent`
(and every check for a *neutral* refactor) must exit 0.  Exit 0 iff all expectations hold.
"""
from __future__ import annotations

import argparse
import concurrent.futures
import json
import os
import pathlib
import shutil
import subprocess
import sys
import tempfile

HERE = pathlib.Path(__file__).resolve().parent
VERIF = HERE.parent
sys.path.insert(0, str(HERE))


def load_corpus():
    import corpus
    return corpus.MUTANTS


def apply_edit(root, m):
    for e in m["edits"]:
        f = root / "src" / "dep_logic" / e["file"]
        s = f.read_text()
        cnt = s.count(e["old"])
        want = e.get("count", 1)
        if cnt != want:
            raise RuntimeError(f"mutant {m['id']}: pattern occurs {cnt}x (want {want}) in {e['file']}: {e['old'][:60]!r}")
        f.write_text(s.replace(e["old"], e["new"]))


def run_one(m, props, repo="/repo", keep=False):
    tmp = pathlib.Path(tempfile.mkdtemp(prefix="vsa_mut_"))
    try:
        shutil.copytree(pathlib.Path(repo) / "src", tmp / "src")
        try:
            apply_edit(tmp, m)
        except RuntimeError as e:
            return {"id": m["id"], "error": str(e), "ok": False, "results": {}}
        res = {}
        evd = tmp / "ev"
        evd.mkdir()
        for p in props:
            env = dict(os.environ, VERIF_EVIDENCE_DIR=str(evd), VERIF_JOBS=os.environ.get("SELFTEST_CHECK_JOBS", "2"),
                       VERIF_TIER=os.environ.get("SELFTEST_TIER", "quick"))
            pr = subprocess.run([str(VERIF / "check"), p, "--repo", str(tmp)], capture_output=True, text=True, env=env)
            out = pr.stdout + pr.stderr
            lines = [l for l in out.splitlines() if l.startswith(("VIOLATION", "ANALYSIS-ERROR", "[" + p + "] rule"))]
            res[p] = {"rc": pr.returncode, "lines": lines[:6]}
        ok = True
        why = []
        for p in props:
            rc = res[p]["rc"]
            if m.get("neutral"):
                if rc != 0:
                    ok = False
                    why.append(f"{p}: neutral refactor flagged (rc={rc})")
            else:
                if p in m.get("fire", ()):
                    if rc != 1:
                        ok = False
                        why.append(f"{p}: expected VIOLATION, rc={rc}")
                elif p in m.get("silent", ()):
                    if rc != 0:
                        ok = False
                        why.append(f"{p}: expected silent, rc={rc}")
        return {"id": m["id"], "ok": ok, "why": why, "results": res}
    finally:
        shutil.rmtree(tmp, ignore_errors=True)


def main():
    ap = argparse.ArgumentParser()
    ap.add_argument("--props", default="")
    ap.add_argument("--ids", default="")
    ap.add_argument("--jobs", type=int, default=8)
    ap.add_argument("--repo", default="/repo")
    ap.add_argument("--neutral-only", action="store_true")
    ap.add_argument("--firing-only", action="store_true")
    ap.add_argument("-v", action="store_true")
    a = ap.parse_args()
    muts = load_corpus()
    if a.ids:
        ids = set(a.ids.split(","))
        muts = [m for m in muts if m["id"] in ids]
    if a.neutral_only:
        muts = [m for m in muts if m.get("neutral")]
    if a.firing_only:
        muts = [m for m in muts if not m.get("neutral")]
    sel = set(a.props.split(",")) if a.props else None
    jobs = []
    for m in muts:
        props = list(m.get("fire", ())) + list(m.get("silent", ())) + list(m.get("props", ()))
        props = sorted(set(props))
        if sel is not None:
            props = [p for p in props if p in sel]
        if props:
            jobs.append((m, props))
    bad = 0
    with concurrent.futures.ThreadPoolExecutor(a.jobs) as ex:
        futs = [ex.submit(run_one, m, props, a.repo) for m, props in jobs]
        for f in futs:
            r = f.result()
            status = "ok  " if r["ok"] else "FAIL"
            if not r["ok"]:
                bad += 1
            print(f"{status} {r['id']}: " + ("; ".join(r.get("why", [])) or r.get("error", "") or
                  " ".join(f"{p}={v['rc']}" for p, v in r["results"].items())))
            if a.v or not r["ok"]:
                for p, v in r["results"].items():
                    for l in v["lines"][:3]:
                        print(f"      {p}: {l[:220]}")
    print(f"selftest: {len(jobs)} variants, {bad} unexpected")
    return 1 if bad else 0


if __name__ == "__main__":
    sys.exit(main())
