"""Self-test corpus: one edit per variant (text replacement with an exact-occurrence check).
fire   = checks that must report a VIOLATION; silent = checks that must stay silent;
neutral = behaviour-preserving refactor: every listed check (props) must stay silent."""

MUTANTS = []


def M(id, file, old, new, fire=(), silent=(), count=1, **kw):
    MUTANTS.append({"id": id, "edits": [{"file": file, "old": old, "new": new, "count": count}],
                    "fire": list(fire), "silent": list(silent), **kw})


def N(id, file, old, new, props, count=1):
    MUTANTS.append({"id": id, "edits": [{"file": file, "old": old, "new": new, "count": count}],
                    "neutral": True, "props": list(props)})


R = "specifiers/range.py"
U = "specifiers/union.py"
S = "specifiers/special.py"

# ---------------------------------------------------------------- C01 / C05 / C14
M("spec-allows_lower-incl", R, "and self.include_min\n            and not other.include_min", "and not self.include_min\n            and other.include_min", fire=["C01"])
M("spec-adjacent-count", R, ".count(True) == 1", ".count(True) == 2", fire=["C05"], silent=["C01"])
M("spec-strictly-lower-false-in", R, "and False in (self.include_max, other.include_min)", "and True in (self.include_max, other.include_min)", fire=["C01"])
M("spec-union-merge-higher", U, "elif other.allows_lower(range):", "elif other.allows_higher(range):", fire=["C05"])
M("spec-union-invert-zip", U, "zip(self.ranges, self.ranges[1:])", "zip(self.ranges, self.ranges[2:])", fire=["C01"])
M("spec-from-ranges-single", U, "elif ranges_number == 1:\n            return ranges[0]", "elif ranges_number == 1:\n            return UnionSpecifier(tuple(ranges))", fire=["C05"])
M("spec-union-rand-removed", U, "    __rand__ = __and__\n", "", fire=["C01"])
M("spec-and-include-swap", R, "            include_min=intersect_include_min,\n            include_max=intersect_include_max,", "            include_min=intersect_include_max,\n            include_max=intersect_include_min,", fire=["C01"])
M("spec-superset-not", R, "and not (not self.include_min and other.include_min)", "and not (self.include_min and not other.include_min)", fire=["C01"])
M("spec-merge-drop-rest", U, "new_ranges.extend([other, range, *ranges])", "new_ranges.extend([other, range])", fire=["C01"])
M("spec-any-and-self", S, "            return NotImplemented\n        return other\n\n    __rand__ = __and__", "            return NotImplemented\n        return self\n\n    __rand__ = __and__", fire=["C01"])
M("spec-invert-incl", R, "specs.append(RangeSpecifier(max=self.min, include_max=not self.include_min))", "specs.append(RangeSpecifier(max=self.min, include_max=self.include_min))", fire=["C01"])
M("spec-or-adjacent", R, "if self.is_strictly_lower(other) and not self.is_adjacent_to(other):", "if self.is_strictly_lower(other):", fire=["C01", "C05"])
M("spec-union-and-any", U, "            if other.is_any():\n                return self\n            to_intersect", "            if other.is_any():\n                return other\n            to_intersect", fire=["C01"])
N("spec-n-allows_lower-if", R, """        return (
            self.min < other.min
            or self.min == other.min
            and self.include_min
            and not other.include_min
        )""", """        if self.min < other.min:
            return True
        if self.min == other.min:
            return self.include_min and not other.include_min
        return False""", props=["C01", "C05", "C14"])
N("spec-n-rename-locals", R, "intersect_min", "lo_bound", props=["C01", "C05"], count=3)
N("spec-n-or-reorder", R, """        if self.is_superset(other):
            return self
        if other.is_superset(self):
            return other

        if self.allows_lower(other):
            if self.is_strictly_lower(other) and""", """        if other.is_superset(self):
            return other
        if self.is_superset(other):
            return self

        if self.allows_lower(other):
            if self.is_strictly_lower(other) and""", props=["C01", "C05", "C14"])
N("spec-n-from-ranges-match", U, """        if (ranges_number := len(ranges)) == 0:
            return EmptySpecifier()
        elif ranges_number == 1:
            return ranges[0]
        else:
            return UnionSpecifier(tuple(ranges))""", """        if not ranges:
            return EmptySpecifier()
        if len(ranges) > 1:
            return UnionSpecifier(tuple(ranges))
        return ranges[0]""", props=["C01", "C05", "C14"])

# ---------------------------------------------------------------- C19
G = "specifiers/generic.py"
M("gen-and-eqne-swap", G, """            if this.value == that.value:
                return EmptySpecifier()
            return this
        elif (this.op, that.op) == ("in", "not in")""", """            if this.value == that.value:
                return EmptySpecifier()
            return that
        elif (this.op, that.op) == ("in", "not in")""", fire=["C19"])
M("gen-and-eqin-dir", G, """            if this.value in that.value:
                return this
            return EmptySpecifier()""", """            if that.value in this.value:
                return this
            return EmptySpecifier()""", fire=["C19"])
M("gen-and-nenotin", G, """("!=", "not in") and this.value in that.value:
            return that""", """("!=", "not in") and this.value in that.value:
            return this""", fire=["C19"])
M("gen-or-nene-any", G, """        elif this.op == "!=" and that.op == "!=":
            return AnySpecifier()""", """        elif this.op == "!=" and that.op == "!=":
            return this""", fire=["C19"])
M("gen-or-eqne", G, """        if this.op == "==" and that.op == "!=":
            if this.value == that.value:
                return AnySpecifier()
            return that""", """        if this.op == "==" and that.op == "!=":
            if this.value == that.value:
                return AnySpecifier()
            return this""", fire=["C19"])
M("gen-or-nenotin", G, """            if this.value in that.value:
                return this
            return AnySpecifier()""", """            if this.value in that.value:
                return that
            return AnySpecifier()""", fire=["C19"])
M("gen-or-eqin", G, """        elif this.op == "==" and that.op == "in" and this.value in that.value:
            return that""", """        elif this.op == "==" and that.op == "in":
            return that""", fire=["C19"])
M("gen-invert-in", G, '''            "in": "not in",
            "<": ">=",''', '''            "in": "in",
            "<": ">=",''', fire=["C19"])
M("gen-invert-lt", G, '''            "<": ">=",
            "<=": ">",''', '''            "<": ">",
            "<=": ">",''', fire=["C19"])
M("gen-contains-swap", G, "return self._op_map[self.op](value, self.value)", "return self._op_map[self.op](self.value, value)", fire=["C19"])
M("gen-opmap-in", G, '"in": lambda lhs, rhs: lhs in rhs,', '"in": lambda lhs, rhs: rhs in lhs,', fire=["C19"])
M("spec-empty-contains", S, """    def is_empty(self) -> bool:
        return True

    def __contains__(self, value: str) -> bool:
        return False""", """    def is_empty(self) -> bool:
        return True

    def __contains__(self, value: str) -> bool:
        return True""", fire=["C19"])
N("gen-n-and-inin-wider", G, """        elif (this.op, that.op) == ("in", "not in") and this.value == that.value:
            return EmptySpecifier()""", """        elif (this.op, that.op) == ("in", "not in") and this.value in that.value:
            return EmptySpecifier()""", props=["C19"])
N("gen-n-sorted-swap", G, """        this, that = sorted(
            (self, other), key=lambda x: self.op_order.get(x.op, len(self.op_order))
        )
        if this.op == that.op == "==":""", """        this, that = self, other
        if self.op_order.get(that.op, len(self.op_order)) < self.op_order.get(this.op, len(self.op_order)):
            this, that = that, this
        if this.op == that.op == "==":""", props=["C19"])
N("gen-n-and-chain", G, """        elif (this.op, that.op) == ("==", "in"):
            if this.value in that.value:
                return this
            return EmptySpecifier()""", """        elif this.op == "==" and that.op == "in":
            return this if this.value in that.value else EmptySpecifier()""", props=["C19"])

# ---------------------------------------------------------------- markers: C02 / C07 / C12 / C15
SG = "markers/single.py"
MU_ = "markers/multi.py"
UN = "markers/union.py"
UT = "utils.py"
M("m-eq-and-filter", SG, "new_values = OrderedSet([v for v in self.values if v in other.specifier])", "new_values = OrderedSet([v for v in self.values if v not in other.specifier])", fire=["C02"])
M("m-ineq-or-notin", SG, "[v for v in self.values if v not in other.specifier]", "[v for v in self.values if v in other.specifier]", fire=["C02"])
M("m-ineq-and-eq", SG, """                if other.value in self.values:
                    return EmptyMarker()
                return other""", """                if other.value in self.values:
                    return other
                return other""", fire=["C02"])
M("m-ineq-replace-op", SG, 'return MarkerExpression(self.name, "!=", values.peek())', 'return MarkerExpression(self.name, "==", values.peek())', fire=["C02"])
M("m-merge-class-swap", SG, """        if merge_class is MultiMarker:
            result_specifier = marker1.specifier & marker2.specifier
        else:
            result_specifier = marker1.specifier | marker2.specifier""", """        if merge_class is MultiMarker:
            result_specifier = marker1.specifier | marker2.specifier
        else:
            result_specifier = marker1.specifier & marker2.specifier""", fire=["C02"])
M("m-extra-merge", SG, """        if marker1.value != marker2.value:  # type: ignore[attr-defined]
            return None""", """        if marker1.value != marker2.value:  # type: ignore[attr-defined]
            pass""", fire=["C02"])
M("m-g2-reintroduced", SG, """                if other.value in self.values:
                    return AnyMarker()
                return other""", """                if other.value in self.values:
                    AnyMarker()
                return other""", fire=["C02"])
M("m-only-not", SG, "if self.name not in marker_names:", "if self.name in marker_names:", fire=["C12"])
M("m-exclude-eq", SG, """        if self.name == marker_name:
            return AnyMarker()""", """        if self.name != marker_name:
            return AnyMarker()""", fire=["C12"])
M("m-multi-only-skip", MU_, "return self.of(*(m.only(*marker_names) for m in self.markers))", "return self.of(*(m.only(*marker_names) for m in self.markers[1:]))", fire=["C12"])
M("m-union-only-names", UN, "return self.of(*(m.only(*marker_names) for m in self.markers))", "return self.of(*(m.only(*marker_names[:1]) for m in self.markers))", fire=["C12"])
M("m-multi-exclude-noskip", MU_, """            if isinstance(m, SingleMarker) and m.name == marker_name:
                # The marker is not relevant since it must be excluded
                continue

            marker = m.exclude(marker_name)

            if not marker.is_empty():""", """            marker = m

            if not marker.is_empty():""", fire=["C12"])
M("m-str-paren", MU_, "if isinstance(m, (MarkerExpression, MultiMarker)):", "if isinstance(m, (MarkerExpression, MultiMarker, BaseMarker)):", fire=["C07"])
M("m-str-eqjoin", SG, """return " or ".join(f'{self.name} == "{value}"' for value in self.values)""", """return " and ".join(f'{self.name} == "{value}"' for value in self.values)""", fire=["C07"])
M("m-str-reversed-op", SG, """return f'"{self.value}" {get_reflect_op(self.op)} {self.name}'""", """return f'"{self.value}" {self.op} {self.name}'""", fire=["C07"])
M("m-str-union-join", UN, 'return " or ".join(str(m) for m in self.markers)', 'return " and ".join(str(m) for m in self.markers)', fire=["C07"])
M("m-of-isany-swap", MU_, """                if marker.is_any():
                    continue""", """                if marker.is_empty():
                    continue""", fire=["C02", "C15"])  # C02 through the polarity rule R02.3
M("m-of-return-any", UN, """                        if new_marker.is_any():
                            return AnyMarker()""", """                        if new_marker.is_any():
                            return EmptyMarker()""", fire=["C02"])   # a soundness defect; C15's syntactic polarity rule is advisory since neutral round 3
M("m-of-single-exit", MU_, """        if len(new_markers) == 1:
            return new_markers[0]

        return MultiMarker(*new_markers)""", """        return MultiMarker(*new_markers)""", fire=["C15"])
M("m-union-simplify-subset", MU_, """            if our_markers.issubset(their_markers):
                return self""", """            if our_markers.issubset(their_markers):
                return other""", fire=["C02"])
M("m-intersect-simplify-subset", UN, """            if our_markers.issubset(their_markers):
                return self""", """            if our_markers.issubset(their_markers):
                return other""", fire=["C02"])
M("m-cnf-of-swap", UT, """        return MultiMarker.of(
            *[MarkerUnion.of(*c) for c in itertools.product(*sub_marker_lists)]
        )""", """        return MarkerUnion.of(
            *[MultiMarker.of(*c) for c in itertools.product(*sub_marker_lists)]
        )""", fire=["C02"])
M("m-normalize-gt", SG, """        splitted[-1] = str(int(splitted[-1]) + 1)
        op = ">="
""", """        op = ">="
""", fire=["C02"])
M("m-get-specifier-glue", SG, """op, glue = ("==", "||") if self.op == "in" else ("!=", ",")""", """op, glue = ("==", ",") if self.op == "in" else ("!=", "||")""", fire=["C02"])
M("m-flatten-class", MU_, """object.__setattr__(self, "markers", tuple(flatten_items(markers, MultiMarker)))""", """object.__setattr__(self, "markers", tuple(flatten_items(markers, BaseMarker)))""", fire=["C15"])
M("m-evaluate-rev-oper", SG, """            op = get_reflect_op(self.op)
        else:""", """            op = self.op
        else:""", fire=["C02"])
M("m-multi-and-merge-op", MU_, "new_marker = mark & marker", "new_marker = mark | marker", fire=["C02"])   # soundness, not normal form
N("m-n-of-ifelse", MU_, """                if marker.is_any():
                    continue

                intersected = False""", """                if marker.is_any():
                    pass
                else:
                  if True:
                    pass
                if marker.is_any():
                    continue

                intersected = False""", props=["C02", "C15"])
N("m-n-only-listcomp", MU_, "return self.of(*(m.only(*marker_names) for m in self.markers))", "return self.of(*[m.only(*marker_names) for m in self.markers])", props=["C12", "C15"])
N("m-n-str-list", MU_, """        elements = []
        for m in self.markers:
            if isinstance(m, (MarkerExpression, MultiMarker)):
                elements.append(str(m))
            else:
                elements.append(f"({m})")

        return " and ".join(elements)""", """        return " and ".join(
            str(m) if isinstance(m, (MarkerExpression, MultiMarker)) else "(" + str(m) + ")" for m in self.markers
        )""", props=["C07"])
N("m-n-exclude-helper", SG, """        if self.name == marker_name:
            return AnyMarker()

        return self""", """        return AnyMarker() if marker_name == self.name else self""", props=["C12"])

# ---------------------------------------------------------------- tags: C08 / C09 / C16 / C18
TG = "tags/tags.py"
PL = "tags/platform.py"
M("t-abi-rank", TG, 'return (int(major), int(minor or 0), 0 if abi_impl == "none" else 2)', 'return (int(major), int(minor or 0), 2 if abi_impl == "none" else 0)', fire=["C08"])
M("t-abi3-rank", TG, "return (int(major), int(minor or 0), 1)  # 1 for abi3", "return (int(major), int(minor or 0), 3)  # 1 for abi3", fire=["C08"])
M("t-abi3-gil", TG, '''        allow_abi3 = impl == "cp" and (
            self.implementation is None or not self.implementation.gil_disabled
        )''', '''        allow_abi3 = impl == "cp"''', fire=["C08"])
M("t-minor-or-1", TG, 'parse_version_specifier(f">={major}.{minor or 0}")', 'parse_version_specifier(f">={major}.{minor or 1}")', fire=["C08"])
M("t-impl-py", TG, """            self.implementation.short,
            "py",
        ]:""", """            self.implementation.short,
        ]:""", fire=["C08"])
M("t-free-threaded", TG, 'and abi_impl.endswith("t") is not free_threaded', 'and abi_impl.endswith("t") is free_threaded', fire=["C08"])
M("t-pyxy-regress", TG, 'if major and minor and impl == "py":', 'if major and minor and impl == "px":', fire=["C08"])
M("t-prefix-regress", TG, 'if abi_impl.rstrip("dmut") != python_tag.lower():', 'if not abi_impl.startswith(python_tag.lower()):', fire=["C08"])
M("t-short-pp", TG, '''        elif self.name == "pypy":
            return "pp"''', '''        elif self.name == "pypy":
            return "pt"''', fire=["C08"])
M("t-compat-min", TG, """        python_compat = max(
            filter(""", """        python_compat = min(
            filter(""", fire=["C08"])
M("t-wheel-range-ignored", TG, """        if (wheel_range & self.requires_python).is_empty():
            return None
        return (int(major)""", """        if (wheel_range & self.requires_python).is_empty():
            pass
        return (int(major)""", fire=["C08"])
N("t-n-impl-set", TG, """        if self.implementation is not None and impl not in [
            self.implementation.short,
            "py",
        ]:""", """        if self.implementation is not None and impl not in (
            "py",
            self.implementation.short,
        ):""", props=["C08"])
N("t-n-abi3-split", TG, """        allow_abi3 = impl == "cp" and (
            self.implementation is None or not self.implementation.gil_disabled
        )""", """        gil_off = self.implementation is not None and self.implementation.gil_disabled
        allow_abi3 = impl == "cp" and not gil_off""", props=["C08"])
M("p-floor-16", PL, """            Arch.S390X,
            Arch.RISCV64,
        ]:
            return 17""", """            Arch.S390X,
            Arch.RISCV64,
        ]:
            return 16""", fire=["C09"])
M("p-min-minor-excl", PL, "for minor in range(os_.minor, min_minor - 1, -1):", "for minor in range(os_.minor, min_minor, -1):", fire=["C09"])
M("p-alias-2010", PL, "if minor == 12:", "if minor == 11:", fire=["C09"])
M("p-alias-2014", PL, "if minor == 17:", "if minor == 16:", fire=["C09"])
M("p-musl-range0", PL, "for minor in range(1, os_.minor + 1):", "for minor in range(0, os_.minor + 1):", fire=["C09"])
M("p-musl-range-excl", PL, "for minor in range(1, os_.minor + 1):", "for minor in range(1, os_.minor):", fire=["C09"])
M("p-mac-1015", PL, """                for minor in range(16, 3, -1):
                    for binary_format in arch.get_mac_binary_formats():""", """                for minor in range(15, 3, -1):
                    for binary_format in arch.get_mac_binary_formats():""", fire=["C09"])
M("p-mac-arm-universal2", PL, """        if self in [Arch.X86_64, Arch.Aarch64]:
            formats.append("universal2")""", """        if self in [Arch.X86_64]:
            formats.append("universal2")""", fire=["C09"])
M("p-mac-major-asc", PL, """            for major in range(os_.major, 10, -1):
                for binary_format in arch.get_mac_binary_formats():
                    platform_tags.append(f"macosx_{major}_0_{binary_format}")
            # The "universal2" binary format can have a macOS version earlier than 11.0
            # when the x86_64 part of the binary supports that version of macOS.
            for minor in range(16, 3, -1):
                platform_tags.append""", """            for major in range(11, os_.major + 1):
                for binary_format in arch.get_mac_binary_formats():
                    platform_tags.append(f"macosx_{major}_0_{binary_format}")
            # The "universal2" binary format can have a macOS version earlier than 11.0
            # when the x86_64 part of the binary supports that version of macOS.
            for minor in range(16, 3, -1):
                platform_tags.append""", fire=["C09"])
M("p-score-index", TG, "return len(platform_tags) - platform_tags.index(platform_tag)", "return 1 + platform_tags.index(platform_tag)", fire=["C09"])
M("p-win-arm", PL, 'platform_tags.append("win_arm64")', 'platform_tags.append("win_aarch64")', fire=["C09"])
M("p-linux-first", PL, """            # Non-manylinux is lowest priority
            # <https://github.com/pypa/packaging/blob/fd4f11139d1c884a637be8aa26bb60a31fbc9411/packaging/tags.py#L444>
            platform_tags.append(f"linux_{arch}")""", """            platform_tags.insert(0, f"linux_{arch}")""", fire=["C09"])
M("c-compare-lt", TG, """            if (self.platform.os.major, self.platform.os.minor) <= (  # type: ignore[attr-defined]""", """            if (self.platform.os.major, self.platform.os.minor) >= (  # type: ignore[attr-defined]""", fire=["C16"])
M("c-compare-arch", TG, """        if self.platform.arch != target.platform.arch:
            return EnvCompatibility.INCOMPATIBLE
""", "", fire=["C16"])
M("c-compare-ostype", TG, """        if type(self.platform.os) is not type(target.platform.os):
            return EnvCompatibility.INCOMPATIBLE
""", "", fire=["C16"])
M("c-compare-minor-only", TG, """            if (self.platform.os.major, self.platform.os.minor) <= (  # type: ignore[attr-defined]
                target.platform.os.major,  # type: ignore[attr-defined]
                target.platform.os.minor,  # type: ignore[attr-defined]
            ):""", """            if (self.platform.os.minor, self.platform.os.major) <= (  # type: ignore[attr-defined]
                target.platform.os.minor,  # type: ignore[attr-defined]
                target.platform.os.major,  # type: ignore[attr-defined]
            ):""", fire=["C16"])
M("c-compare-impl-asym", TG, """            self.implementation is not None
            and target.implementation is not None
            and self.implementation != target.implementation""", """            self.implementation is not None
            and self.implementation != target.implementation""", fire=["C16"])
M("c-compare-refl", TG, """        if self == target:
            return EnvCompatibility.LOWER_OR_EQUAL
        if (self.requires_python""", """        if self == target:
            return EnvCompatibility.HIGHER
        if (self.requires_python""", fire=["C16"])
M("w-ext", TG, 'if not filename.endswith(".whl"):', 'if not filename.endswith("whl"):', fire=["C18"])
M("w-dashes", TG, "if dashes not in (4, 5):", "if dashes not in (4, 5, 6):", fire=["C18"])
M("w-parts", TG, "python, abi, platform = parts[-3:]", "python, abi, platform = parts[2:5]", fire=["C18"])
M("w-nosplit", TG, 'return python.split("."), abi.split("."), platform.split(".")', 'return python.split("."), [abi], platform.split(".")', fire=["C18"])
M("w-alias-macos", PL, """        elif platform == "macos":
            return cls(os.Macos(14, 0), Arch.Aarch64)""", """        elif platform == "macos":
            return cls(os.Macos(13, 0), Arch.Aarch64)""", fire=["C18"])
M("w-alias-alpine", PL, "return cls(os.Musllinux(1, 2), Arch.X86_64)", "return cls(os.Musllinux(1, 1), Arch.X86_64)", fire=["C18"])
M("w-str-arm64", PL, 'return f"{self.os}_arm64"', 'return f"{self.os}_aarch64_"', fire=["C18"])
M("w-parse-arm64", PL, """        if arch == "arm64":
            return cls.Aarch64""", """        if arch == "arm64":
            return cls.Armv7L""", fire=["C18"])
M("w-regex-minor", PL, r"(?P<major>\d+?)_(?P<minor>\d+?)_(?P<arch>[a-z0-9_]+)$", r"(?P<major>\d+?)_(?P<minor>\d)_(?P<arch>[a-z0-9_]+)$", fire=["C18"])
N("p-n-reversed-range", PL, "for minor in range(1, os_.minor + 1):", "for minor in reversed(range(1, os_.minor + 1)):", props=["C09", "C16"])
N("p-n-formats-concat", PL, """        if self == Arch.X86_64:
            formats.extend(["intel", "fat64", "fat32"])""", """        if self == Arch.X86_64:
            formats = formats + ["intel", "fat64", "fat32"]""", props=["C09"])
N("c-n-compare-reorder", TG, """        if self.platform.arch != target.platform.arch:
            return EnvCompatibility.INCOMPATIBLE
        if type(self.platform.os) is not type(target.platform.os):
            return EnvCompatibility.INCOMPATIBLE
""", """        if type(self.platform.os) is not type(target.platform.os):
            return EnvCompatibility.INCOMPATIBLE
        if self.platform.arch != target.platform.arch:
            return EnvCompatibility.INCOMPATIBLE
""", props=["C16"])
N("w-n-dashes-len", TG, """    dashes = filename.count("-")
    if dashes not in (4, 5):""", """    dashes = len(filename.split("-")) - 1
    if not 4 <= dashes <= 5:""", props=["C18"])

# ---------------------------------------------------------------- C06 / C04 / C17 / C11
SI = "specifiers/__init__.py"
M("r-guard-removed", R, """            if first_different >= len(min_stable) - 1 or first_different == 0:""", """            if first_different == 0:""", fire=["C06"])
M("r-prerelease-dropped", R, """                and not self.max.is_prerelease
""", "", fire=["C06"])
M("r-str-cross", R, """return f'{">=" if self.include_min else ">"}{self.min},{"<=" if self.include_max else "<"}{self.max}'""", """return f'{">=" if self.include_max else ">"}{self.min},{"<=" if self.include_min else "<"}{self.max}'""", fire=["C06"])
M("r-half-incl", R, '''return f"{'<=' if self.include_max else '<'}{self.max}"''', '''return f"{'<' if self.include_max else '<='}{self.max}"''', fire=["C06"])
M("r-diff-1", R, "if max_stable[first_different] - min_stable[first_different] != 1:", "if max_stable[first_different] - min_stable[first_different] < 1:", fire=["C06"])
M("r-tail-zero", R, "all(p == 0 for p in max_stable[first_different + 1 :])\n                and", "True\n                and", fire=["C06"])
M("u-join", U, 'return "||".join(map(str, self.ranges))', 'return "|".join(map(str, self.ranges))', fire=["C06"])
M("u-ne-guard", U, """            and left.max == right.min
            and left.max is not None""", """            and left.max is not None""", fire=["C06"])
# unreachable once the pre/post-release early return is in place (equal padded releases then differ only in suffixes): equivalent
N("u-n-g4-guard-redundant", U, "0 < first_different < len(left_stable)", "first_different > 0", props=["C06"])
M("u-g5-regress", U, """                or left.max.is_postrelease
                or right.min.is_postrelease
""", "", fire=["C06"])
M("u-wild-epoch", U, 'epoch = "" if left.max.epoch == 0 else f"{left.max.epoch}!"', 'epoch = ""', fire=["C06"])
M("i-empty-token", SI, 'if spec == "<empty>":', 'if spec == "<none>":', fire=["C06"])
M("i-tilde-drop", SI, "_, max = _prefix_bounds(min.epoch, min.release[:-1])", "_, max = _prefix_bounds(min.epoch, min.release)", fire=["C06", "C04"])
M("i-wild-incl", SI, """            min, max = _prefix_bounds(prefix.epoch, prefix.release)
            include_min = True
            include_max = False""", """            min, max = _prefix_bounds(prefix.epoch, prefix.release)
            include_min = True
            include_max = True""", fire=["C01", "C04"])
M("i-ne-incl", SI, """                    RangeSpecifier(max=v, include_max=False),
                    RangeSpecifier(min=v, include_min=False),""", """                    RangeSpecifier(max=v, include_max=False),
                    RangeSpecifier(min=v, include_min=True),""", fire=["C01", "C04"])
M("i-epoch-lost", SI, 'head = f"{epoch}!" if epoch else ""', 'head = ""', fire=["C04"], silent=["C17"])
N("r-n-fstring-concat", R, '''return f"{'>=' if self.include_min else '>'}{self.min}"''', '''return ('>=' if self.include_min else '>') + str(self.min)''', props=["C06"])
N("u-n-str-early", U, """        if self._simplified_form is not None:
            return self._simplified_form
        return "||".join(map(str, self.ranges))""", """        simplified = self._simplified_form
        if simplified is None:
            return "||".join([str(r) for r in self.ranges])
        return simplified""", props=["C06"])
M("b-g10-regress", SG, """                and pkg_spec.operator != "~="
                and "*" not in pkg_version
""", "", fire=["C11", "C02"])
# equivalent on python_version candidates X.Y (==X.Y.0.0 admits exactly X.Y): must stay silent
N("b-n-get-spec-wild", SG, """                    if self.name == "python_version":
                        splitted.append("*")""", """                    if self.name == "python_full_version":
                        splitted.append("*")""", props=["C11"])
M("b-from-spec-any", SG, """        if specifier.is_any():
            return AnyMarker()
        if specifier.is_empty():
            return EmptyMarker()""", """        if specifier.is_any():
            return EmptyMarker()
        if specifier.is_empty():
            return AnyMarker()""", fire=["C11", "C02"])
M("b-version-like", SG, """        "python_full_version",
        "platform_release",
    }""", """        "platform_release",
    }""", fire=["C11"])
M("b-get-spec-glue", SG, """op, glue = ("==", "||") if self.op == "in" else ("!=", ",")""", """op, glue = ("==", "||") if self.op == "not in" else ("!=", ",")""", fire=["C11"])
M("i-except-removed", SI, """    try:
        pkg_spec = SpecifierSet(spec)
    except PkgInvalidSpecifier as e:
        raise InvalidSpecifier(str(e)) from e
    else:
        return from_specifierset(pkg_spec)""", """    pkg_spec = SpecifierSet(spec)
    return from_specifierset(pkg_spec)""", fire=["C17"])
M("i-op-removed", SI, """    elif op == "===":
        return ArbitrarySpecifier(target=version)
""", "", fire=["C17"])
M("i-g6-regress", SI, """        min = Version(version)
        _, max = _prefix_bounds(min.epoch, min.release[:-1])""", """        min = Version(version)
        _, max = _prefix_bounds(0, tuple(int(x) for x in version.split(".")[:-1]))""", fire=["C17"])
N("i-n-prefix-inline", SI, """    head = f"{epoch}!" if epoch else ""
""", """    head = ""
    if epoch:
        head = str(epoch) + "!"
""", props=["C17", "C04", "C01"])

# ---------------------------------------------------------------- C03 / C10 / C13
M("k-operators-lt", SG, '"<": operator.lt,', '"<": operator.le,', fire=["C03"])
M("k-operators-in-swap", SG, '"in": lambda lhs, rhs: lhs in rhs,', '"in": lambda lhs, rhs: rhs in lhs,', fire=["C03"])
M("k-reflect-lt", UT, '''    "<": ">",
    "<=": ">=",''', '''    "<": "<",
    "<=": ">=",''', fire=["C03", "C07"])
M("k-normalize-dropped", SG, """            value = normalize_name(self.value)
            extra = {normalize_name(v) for v in extra}""", """            value = self.value
            extra = {normalize_name(v) for v in extra}""", fire=["C03"])
M("k-build-markers-and", "markers/__init__.py", "or_groups[-1] &= _build_markers(item)", "or_groups[-1] |= _build_markers(item)", fire=["C03"])
M("k-build-markers-rev", "markers/__init__.py", """                str(markers[2]),
                get_reflect_op(str(markers[1])),
                str(markers[0]),
                True,""", """                str(markers[2]),
                str(markers[1]),
                str(markers[0]),
                True,""", fire=["C03"])
M("k-context-lock", SG, 'current_environment.update(extras=set(), dependency_groups=set())', 'current_environment.update(extras=set())', fire=["C03"])
M("k-multi-evaluate-any", MU_, "return all(m.evaluate(environment, context) for m in self.markers)", "return any(m.evaluate(environment, context) for m in self.markers)", fire=["C03"])
M("k-compare-false-value", SG, """    name: str
    op: str
    value: str
    reversed: bool = field(default=False, compare=False, hash=False)""", """    name: str
    op: str
    value: str = field(compare=False)
    reversed: bool = field(default=False, compare=False, hash=False)""", fire=["C13"])
M("k-hash-only-reversed", SG, "reversed: bool = field(default=False, compare=False, hash=False)", "reversed: bool = field(default=False, compare=False, hash=True)", fire=["C13"])
M("k-any-hash-regress", S, "return hash((None, None, False, False))", "return hash(str(self))", fire=["C13"])
M("k-empty-eq-any", S, """        if not isinstance(other, BaseSpecifier):
            return NotImplemented
        return isinstance(other, EmptySpecifier)""", """        if not isinstance(other, BaseSpecifier):
            return NotImplemented
        return isinstance(other, (EmptySpecifier, AnySpecifier))""", fire=["C13", "C05"])
M("k-new-cache-of", MU_, """    @classmethod
    def of(cls, *markers: BaseMarker) -> BaseMarker:
        from dep_logic.markers.union import MarkerUnion
""", """    @classmethod
    @functools.lru_cache(maxsize=None)
    def of(cls, *markers: BaseMarker) -> BaseMarker:
        from dep_logic.markers.union import MarkerUnion
""", fire=["C10"])
M("k-mutate-shared", SG, """        if merged is not None:
            return merged

        return MultiMarker(self, other)""", """        if merged is not None:
            if isinstance(merged, MarkerExpression):
                merged.reversed = self.reversed
            return merged

        return MultiMarker(self, other)""", fire=["C10"])
M("k-cache-env", "markers/__init__.py", """    if not marker or marker == "*":
        return AnyMarker()""", """    import os
    if not marker or marker == os.environ.get("ANY", "*"):
        return AnyMarker()""", fire=["C10"])
N("k-n-cache-alias", UT, "@functools.lru_cache(maxsize=None)\ndef cnf", "@functools.cache\ndef cnf", props=["C10"])
N("k-n-operators-comp", SG, '''    "<": operator.lt,
    "<=": operator.le,''', '''    "<=": operator.le,
    "<": operator.lt,''', props=["C03"])
M("i-parse-or-and", SI, """            operator.or_, map(parse_version_specifier, spec.split("||"))""", """            operator.and_, map(parse_version_specifier, spec.split("||"))""", fire=["C05", "C06"])
M("i-from-set-seed", SI, """        operator.and_, map(_from_pkg_specifier, spec), RangeSpecifier()""", """        operator.or_, map(_from_pkg_specifier, spec), RangeSpecifier()""", fire=["C05", "C04"])
M("m-g14-regress", MU_, """                if unique_union.is_any():
                    # AnyMarker & x returns x unchanged, so normalize the common part here
                    return MultiMarker.of(*common_markers)
""", "", fire=["C15"])
M("m-g14-dual-regress", UN, """                if unique_intersection.is_empty():
                    # EmptyMarker | x returns x unchanged, so normalize the common part here
                    return MarkerUnion.of(*common_markers)
""", "", fire=["C15"])
M("m-g15-tilde-regress", SG, 'while op != "~=" and len(splitted) > 2 and splitted[-1] == "0":', 'while len(splitted) > 2 and splitted[-1] == "0":', fire=["C02"])
M("m-g15-regress", SG, """    while op != "~=" and len(splitted) > 2 and splitted[-1] == "0":
        # python_version is always X.Y, so "3.7.0" (as rendered from a merged specifier) means "3.7";
        # not for "~=", where the number of segments is significant
        splitted.pop()
""", "", fire=["C02"])
M("k-variable-rule", "markers/__init__.py", "|extras?", "|extra", fire=["C03"])
M("k-variable-rule-dot", "markers/__init__.py", "|os[._]name", "|os_name", fire=["C03"])
M("k-normalize-name", UT, '''return re.sub(r"[-_.]+", "-", name).lower()''', '''return re.sub(r"[-_.]", "-", name).lower()''', fire=["C03"])

# ---------------------------------------------------------------- correct memoisation must stay silent (C10 and the behavioural checks)
N("k-n-normalize-dict-cache", UT, '''def normalize_name(name: str) -> str:
    return re.sub(r"[-_.]+", "-", name).lower()''', '''_normalized_names: dict[str, str] = {}


def normalize_name(name: str) -> str:
    if name not in _normalized_names:
        _normalized_names[name] = re.sub(r"[-_.]+", "-", name).lower()
    return _normalized_names[name]''', props=["C10", "C03", "C02"])
N("k-n-normalize-lru", UT, '''def normalize_name(name: str) -> str:
    return re.sub(r"[-_.]+", "-", name).lower()''', '''@functools.lru_cache(maxsize=None)
def normalize_name(name: str) -> str:
    return re.sub(r"[-_.]+", "-", name).lower()''', props=["C10", "C03"])
N("k-n-normalize-pyver-lru", SG, '''def _normalize_python_version_specifier(marker: MarkerExpression) -> BaseSpecifier:''', '''@functools.lru_cache(maxsize=None)
def _normalize_python_version_specifier(marker: MarkerExpression) -> BaseSpecifier:''', props=["C10", "C02", "C03"])
N("k-n-reflect-lru", UT, '''def get_reflect_op(op: str) -> str:
    return _op_reflect_map[op]''', '''@functools.lru_cache(maxsize=None)
def get_reflect_op(op: str) -> str:
    return _op_reflect_map[op]''', props=["C10", "C03", "C07"])
