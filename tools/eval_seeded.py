"""Evaluate seeded changes: for every /verif/seeded/<id>/ (patch.diff, demo.py, meta.json)

  1. copy /repo (src + tests) to a scratch dir outside /repo and /verif, apply the patch there;
  2. confirm the claims: the existing suite gives the baseline result with the patch; demo.py exits 1 with the
     patch and 0 without;
  3. run the checks (--repo <scratch>) and record which report a VIOLATION;
  4. remove the scratch dir.

  tools/eval_seeded.py [--ids a,b] [--checks C01,C02|all|own] [--jobs N] [--no-confirm]
Writes seeded/<id>/result.json and prints a table.
"""
from __future__ import annotations

import argparse
import concurrent.futures
import json
import os
import pathlib
import shutil
import subprocess
import sys
import tempfile

VERIF = pathlib.Path(__file__).resolve().parent.parent
ALL = [f"C{i:02d}" for i in range(1, 20)]
PY = "/venv/bin/python"
BASELINE_FAIL = {"tests/marker/test_evaluation.py::test_evaluate_extra[platform_release >= '6'-environment10-True]",
                 "tests/specifier/test_arbitrary.py::test_arbitrary_unsupported[===abc->=1-and]"}


DEPENDS = {
    "tags": ["C08", "C09", "C16", "C18"],
    "markers": ["C02", "C03", "C07", "C10", "C11", "C12", "C13", "C14", "C15"],
    "specifiers": ["C01", "C02", "C03", "C04", "C05", "C06", "C07", "C08", "C10", "C11", "C12", "C13", "C14", "C15", "C16", "C17", "C19"],
    "utils": [c for c in ALL if c not in ("C09", "C18")],
}


def relevant_checks(patch):
    """checks whose analysed modules are touched by the patch (each check reads only part of src/dep_logic)"""
    out = set()
    for line in pathlib.Path(patch).read_text().splitlines():
        if line.startswith("+++ b/src/dep_logic/"):
            rel = line[len("+++ b/src/dep_logic/"):]
            top = rel.split("/")[0]
            out.update(DEPENDS.get(top, DEPENDS["utils"] if top == "utils.py" else ALL))
    return sorted(out) or ALL


def sh(cmd, cwd=None, env=None, timeout=1800):
    p = subprocess.run(cmd, cwd=cwd, env=env, capture_output=True, text=True, timeout=timeout)
    return p.returncode, p.stdout + p.stderr


def evaluate(sd, checks, confirm=True, check_jobs=4):
    sid = sd.name
    meta = json.loads((sd / "meta.json").read_text()) if (sd / "meta.json").exists() else {}
    tmp = pathlib.Path(tempfile.mkdtemp(prefix="vsa_seed_"))
    res = {"id": sid, "property": meta.get("property"), "confirm": {}, "checks": {}}
    try:
        shutil.copytree("/repo/src", tmp / "src")
        shutil.copytree("/repo/tests", tmp / "tests")
        for f in ("pyproject.toml", "conftest.py"):
            if pathlib.Path("/repo", f).exists():
                shutil.copy(pathlib.Path("/repo", f), tmp / f)
        clean = pathlib.Path(tempfile.mkdtemp(prefix="vsa_seed_clean_"))
        rc, out = sh(["git", "apply", "-p1", str(sd / "patch.diff")], cwd=tmp)
        if rc != 0:
            res["error"] = "patch does not apply: " + out[-300:]
            return res
        env = dict(os.environ, PYTHONPATH=str(tmp / "src"), PYTHONDONTWRITEBYTECODE="1")
        if confirm:
            rc, out = sh([PY, "-m", "pytest", "-q", "-p", "no:cacheprovider", "-x", "--deselect", list(BASELINE_FAIL)[0], "--deselect", list(BASELINE_FAIL)[1]],
                         cwd=tmp, env=env)
            tail = [l for l in out.splitlines() if " passed" in l or " failed" in l][-1:] or [out[-200:]]
            res["confirm"]["tests_with_patch"] = tail[0].strip()
            res["confirm"]["tests_ok"] = rc == 0
            rc1, out1 = sh([PY, str(sd / "demo.py")], cwd=tmp, env=env)
            env0 = dict(os.environ, PYTHONPATH="/repo/src", PYTHONDONTWRITEBYTECODE="1")
            rc0, out0 = sh([PY, str(sd / "demo.py")], cwd=str(clean), env=env0)
            res["confirm"]["demo_with_patch_exit"] = rc1
            res["confirm"]["demo_without_patch_exit"] = rc0
            res["confirm"]["demo_output"] = out1.strip().splitlines()[-3:]
        shutil.rmtree(clean, ignore_errors=True)
        evd = tmp / "ev"
        evd.mkdir()
        for c in checks:
            cenv = dict(os.environ, VERIF_EVIDENCE_DIR=str(evd), VERIF_JOBS=str(check_jobs), VERIF_TIER=os.environ.get("SEED_TIER", "quick"))
            rc, out = sh([str(VERIF / "check"), c, "--repo", str(tmp)], env=cenv)
            lines = [l for l in out.splitlines() if l.startswith(("[" + c + "] rule", "ANALYSIS-ERROR"))]
            res["checks"][c] = {"rc": rc, "report": [l[:300] for l in lines[:3]]}
        res["caught_by"] = [c for c, v in res["checks"].items() if v["rc"] == 1]
        res["analysis_errors"] = [c for c, v in res["checks"].items() if v["rc"] == 2]
        return res
    finally:
        shutil.rmtree(tmp, ignore_errors=True)


def main():
    ap = argparse.ArgumentParser()
    ap.add_argument("--ids", default="")
    ap.add_argument("--checks", default="all")
    ap.add_argument("--jobs", type=int, default=4)
    ap.add_argument("--no-confirm", action="store_true")
    ap.add_argument("--root", default="seeded", help="seeded (expect VIOLATION) or neutral (expect silence)")
    a = ap.parse_args()
    root = VERIF / a.root
    dirs = sorted(d for d in root.iterdir() if d.is_dir() and (d / "patch.diff").exists())
    if a.ids:
        want = set(a.ids.split(","))
        dirs = [d for d in dirs if d.name in want]
    jobs = []
    with concurrent.futures.ThreadPoolExecutor(a.jobs) as ex:
        for d in dirs:
            meta = json.loads((d / "meta.json").read_text()) if (d / "meta.json").exists() else {}
            if a.checks == "auto":
                checks = relevant_checks(d / "patch.diff")
            elif a.checks == "all":
                checks = ALL
            elif a.checks == "own":
                checks = [meta.get("property")] if meta.get("property") else ALL
            else:
                checks = a.checks.split(",")
            jobs.append((d, ex.submit(evaluate, d, checks, not a.no_confirm)))
        for d, f in jobs:
            r = f.result()
            prev = {}
            if (d / "result.json").exists():
                try:
                    prev = json.loads((d / "result.json").read_text())
                except ValueError:
                    prev = {}
            if not r.get("confirm") and prev.get("confirm"):
                r["confirm"] = prev["confirm"]          # keep the last confirmation (suite + demo) when run with --no-confirm
            merged = dict(prev.get("checks", {}))
            merged.update(r.get("checks", {}))
            r["checks"] = merged
            r["caught_by"] = sorted(c for c, v in merged.items() if v["rc"] == 1)
            r["analysis_errors"] = sorted(c for c, v in merged.items() if v["rc"] == 2)
            (d / "result.json").write_text(json.dumps(r, indent=1) + "\n")
            c = r.get("confirm", {})
            print(f"{r['id']:10s} prop={r.get('property')} tests_ok={c.get('tests_ok')} demo={c.get('demo_with_patch_exit')}/{c.get('demo_without_patch_exit')} "
                  f"caught_by={r.get('caught_by')} errors={r.get('analysis_errors')} {r.get('error', '')}")
    return 0


if __name__ == "__main__":
    sys.exit(main())
