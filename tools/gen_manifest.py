"""Regenerates /verif/MANIFEST.json from the table below (keeps claimed / not_applicable in sync)."""
import json
import pathlib

VERIF = pathlib.Path(__file__).resolve().parent.parent

ABS = "exhaustive abstract interpretation over a complete finite quotient"
CLAIMED = {
    "C01": dict(
        technique="static analysis: path-recording abstract interpretation of the operator source over opaque order-only version tokens (finite quotient of order types), checked against interval-set denotations",
        text="Complete within the bound: every ordered pair of canonical specifiers (empty, both universal spellings, ranges, unions) over K distinct bound values (quick K=3, thorough K=4) x {&,|} and every ~a is abstractly interpreted from the current source through the modelled operator protocol; the result's denotation on the doubled line must equal and/or/not of the operands', and so must the complement of every pair result (depth 2). Also dispatch totality, closure of bounds, and the PEP 440 operator->bounds shape table of _from_pkg_specifier. Decides the set-algebra behaviour for operands with <= K bound values; larger operands only by the closure/induction argument (stated, not checked).",
        note="trusts: Version order is total (PEP 440); interpreter model of Python operator protocol/dataclasses/lru_cache; versions only compared — enforced: if the slice uses a version token in any other way the check re-runs on concrete mixed-shape version pools (with equal-but-differently-spelled twins) and says so in the evidence",
        ref="DESIGN.md §4 C01", thorough=True),
    "C05": dict(
        technique="static analysis: abstract interpretation over order-only tokens; canonical-shape, interpreted-__eq__ and is_empty/is_any obligations on every result; class-table facts",
        text="Complete within the bound K (quick 3, thorough 4): every result of &,|,~ over all operand pairs is in canonical shape, compares equal (interpreted __eq__, both directions) to the canonical representative of its set and unequal to all one-point neighbours, the full operand x operand == matrix is the identity relation on sets, is_empty()/is_any() are exact, and results of *parsing* (comma folds, ||, contradictory and differently-spelled clause sequences) are canonical and exact on a candidate grid.",
        note="trusts: total order on versions; dataclass __eq__ modelled from field specs read from source",
        ref="DESIGN.md §4 C05", thorough=True),
    "C14": dict(
        technique="static analysis: abstract interpretation of both sides of each Boolean-algebra law over order-only tokens, compared with the interpreted __eq__",
        text="Specifier half decided completely within bounds: pair laws on all ordered pairs over K tokens (quick 3 / thorough 4), associativity and distributivity on all triples over K-1 tokens. Marker half ('up to equivalence'): both sides of every law are interpreted on every ordered triple over the atoms and ==/!= groups of one string variable and over a python_version family (exhaustive), and on seeded triples of level-0 atoms and their denotations compared (bounded sample); in general it is a corollary of C02's soundness clauses.",
        note="trusts: as C01/C05; marker laws on one exhaustive same-variable family plus a bounded seeded sample. If the order-only lemma breaks (a version token is used other than by comparison) the check re-runs on concrete mixed-shape version pools and says so",
        ref="DESIGN.md §4 C14", thorough=True),
    "C19": dict(
        technique="static analysis: abstract interpretation of the GenericSpecifier case table over relation-class representative strings (saturated quotient), result denotation vs PEP 508 string-operator semantics",
        text="Complete over the relation quotient: every ordered pair of (operator, literal) atoms with literals from a pool saturating the ==/substring relation signatures x {&,|} and every ~a is interpreted from source; outcome must be NotImplementedError or a specifier denoting exactly and/or/complement on every candidate; the code's own __contains__ on each result kind must agree with the denotation.",
        note="trusts: PEP 508 string operator semantics; relation-only lemma (literals touched only through ==, in, <)",
        ref="DESIGN.md §4 C19", thorough=True),
    "C02": dict(
        technique="static analysis: bounded abstract interpretation of the marker operators from source (packaging replaced by a PEP 440/508 model), denotations as bitmasks over an environment grid; plus a syntax-directed discarded-result rule (the syntactic polarity facts of `of` are advisory notes only)",
        text="Necessary conditions, bounded: all ordered pairs of a level-0 atom vocabulary (exhaustive), all atom-group pairs, a structured shared-child family and a seeded sample of compound pairs must evaluate as the conjunction/disjunction of the operands on every environment of the grid; Any/Empty identities; evaluate() of atoms and groups equals the PEP 508 meaning (incl. pre-/post-release interpreters); operators leave their operands unchanged; polarity facts of both `of` fix-points hold on all paths; no computed result is dropped. Arbitrary-depth trees, termination and the caches are NOT decided here.",
        note="trusts: vsa/pkgmodel.py (PEP 440 ordering / operator table) standing in for packaging; vocabulary of vsa/markexplore.py",
        ref="DESIGN.md §4 C02", thorough=True),
    "C07": dict(
        technique="static analysis: bounded abstract interpretation of __str__ from source; rendered text given meaning by an independent PEP 508 grammar and compared with the structural denotation; table rules on reflect map and special tokens",
        text="Necessary conditions, bounded: for every distinct marker of the explored universe (level 0-2 results) the interpreted str(m) is valid PEP 508, denotes exactly m under and/or precedence, never contains '<empty>', and the interpreted parse_marker(str(m)) is equivalent; '' and '<empty>' renderings and parse_marker's special cases agree; _op_reflect_map is an involution. Acceptance by packaging's real parser and exotic quoting are not decided.",
        note="trusts: own PEP 508 grammar and PEP 440 model in place of packaging",
        ref="DESIGN.md §4 C07", thorough=True),
    "C12": dict(
        technique="static analysis: bounded abstract interpretation of only()/exclude()/without_extras() from source on the explored marker universe (mentioned variables + denotation bitmasks); class-table exhaustiveness and monotone-language facts",
        text="Bounded: for every marker of the universe and subsets of its variables, only() mentions no foreign variable, is implied by m, and equals m when m mentions only those names; exclude()/without_extras() drop the variable and keep the meaning when it is not mentioned. Class table: every marker class resolves the three methods; without_extras == exclude('extra'); no negation operator exists (monotone language).",
        note="trusts: PEP 440/508 model; vocabulary bound",
        ref="DESIGN.md §4 C12", thorough=True),
    "C15": dict(
        technique="static analysis: bounded abstract interpretation judging the shape of every returned marker against the normal form; the syntactic rules on `of` exits and constructor flattening are advisory notes only",
        text="Bounded: every result of &, |, only, exclude, without_extras, parse_marker(str(m)), parse_marker on generated texts (shared-child family, precedence forms) and the MultiMarker.of/MarkerUnion.of classmethods on shared-child compounds is empty, universal, an atom/atom group, or a compound with >= 2 distinct children none empty/universal/same-kind; plus all-path rules: `of` exits and polarity, each compound constructor flattens its own class. Arbitrary trees are not decided.",
        note="trusts: PEP 440/508 model; vocabulary bound",
        ref="DESIGN.md §4 C15", thorough=True),
    "C08": dict(
        technique="static analysis: partial evaluation of EnvSpec._evaluate_python from source with requires_python symbolic (forking symbolic booleans); residual decision table vs the PEP 425/3149/703 rule table",
        text="Complete over the static tag vocabulary: for every (implementation, python tag, abi tag) the residual is None or `None if empty(TEMPLATE & requires_python) else score`; the TEMPLATE's admitted interpreters (PEP 440 model over majors 2-4 x minors 0-22) and the score equal the rule table C08 states; requires_python can only flow into that emptiness guard (operation whitelist; isinstance/attribute inspection of it aborts the symbolic clause with a note); on a grid of 18 (thorough 28) concrete requires_python values aligned with the tag minors every tag triple is accepted iff the rule table and the admitted interpreters intersect, with the right score; compatibility() is the max over combinations. Non-emptiness of TEMPLATE & requires_python itself is C01/C05's.",
        note="trusts: rule table transcribed from C08/PEP 425/3149/703; PEP 440 model for template meaning",
        ref="DESIGN.md §4 C08", thorough=False),
    "C09": dict(
        technique="static analysis: abstract interpretation of Platform.compatible_tags and the Arch tables from source for every platform of the property's grid, compared with an independent PEP 600/656/macOS tag generator",
        text="Complete over the property's grid (manylinux 2.5..2.50 x 9 architectures, musllinux 1.1..1.5 x 8, macOS 10.4..10.16 and 11..30, Windows x 3): exact tag sequence for manylinux/macOS (fat* ignored), sets for musllinux/Windows; architecture floors and binary formats per enum member; _evaluate_platform scoring strictly decreasing with `any` last and stable across repeated evaluation; a second pass in another order and a re-read of every earlier tag list (no order dependence, no retroactive change).",
        note="trusts: the PEP rule generator in vsa/props/c09.py (written from the PEPs as C09 states them)",
        ref="DESIGN.md §4 C09", thorough=False),
    "C16": dict(
        technique="static analysis: abstract interpretation of EnvSpec.compare / compatible_tags from source over a spec grid (order-theoretic laws, tag-set nesting) + symbolic residual form of _evaluate_python for requires_python monotonicity",
        text="Over the grid (requires_python x 18 platforms x 4 implementations, all ordered pairs): compare is reflexive, INCOMPATIBLE symmetric, never HIGHER both ways, and LOWER_OR_EQUAL/HIGHER imply the interpreted tag sets are nested; every _evaluate_python residual uses requires_python only as a negative emptiness guard with an independent score (monotone given C01); tag sets are nested along consecutive releases of every family/architecture of C09's grid (evaluated in shuffled order and re-read at the end); on the concrete requires_python grid, widening never loses a tag triple; and on the dense release grid of every OS family/architecture (every ordered pair of releases, incl. macOS 10.16/11.0 and mid-year minors) compare obeys the same laws and agrees with tag-set nesting.",
        note="trusts: PEP 440 model; specifier algebra exactness (C01/C05)",
        ref="DESIGN.md §4 C16", thorough=True),
    "C18": dict(
        technique="static analysis: abstract interpretation of parse_wheel_tags / Platform.parse / __str__ / Arch.parse from source over grids of name shapes; aliases read from the docstring AST",
        text="Structural clauses only: on a grid of PEP 427 file-name shapes parse_wheel_tags equals the PEP 427 split and malformed names raise InvalidWheelFilename (TagsError+ValueError); every Platform.choices() entry parses, documented aliases resolve to their targets, Platform.parse(str(p)) == p on the family table. Agreement with packaging.utils.parse_wheel_filename on name/version validation is not decided.",
        note="trusts: PEP 427 split; docstring as the alias documentation",
        ref="DESIGN.md §4 C18", thorough=True),
    "C06": dict(
        technique="static analysis: bounded abstract interpretation of __str__/_simplified_form and parse_version_specifier/_from_pkg_specifier from source over a structured pool of version shapes (packaging replaced by a PEP 440 model); token-agreement rule",
        text="Necessary conditions, bounded: for every half-line, range (all inclusivities), point range, complement and operator result over a 21-version pool covering release lengths, trailing zeros, pre/post/dev and epochs, the interpreted str() does not raise, is accepted by the modelled specifier grammar and parses back to an object equal under the interpreted __eq__; renderer/parser special tokens agree. One known finding (lossy '~=' when the dropped bound is a post-release; pinned by the existing tests). Real packaging acceptance and shapes outside the pool are not decided.",
        note="trusts: vsa/pkgmodel.py as PEP 440 (parse, order, normal form, specifier grammar)",
        ref="DESIGN.md §4 C06", thorough=True),
    "C04": dict(
        technique="static analysis: bounded abstract interpretation of parse/operators/contains from source (packaging replaced by a PEP 440 model) over expression trees on a leaf pool; partial evaluation of _from_pkg_specifier's arithmetic on a text-shape grammar",
        text="Necessary conditions, bounded: for expression trees (depth <= 2, &, |, ~) over 23 PEP 440 leaf specifiers (every operator, wildcards, ~=, comma sets, pre/post/dev/epoch bounds, === leaves) and 15 final-release candidates, the interpreted `v in result` equals the Boolean combination of the PEP 440 operator table on the leaves (=== trees: equation or ValueError); Empty/Any membership constants; the bound values of _from_pkg_specifier equal the PEP 440 table on ~5000 text shapes. One known finding (shared root with C06). Agreement with packaging's implementation beyond the PEP table is not decided.",
        note="trusts: vsa/pkgmodel.py operator table for final releases",
        ref="DESIGN.md §4 C04", thorough=True),
    "C11": dict(
        technique="static analysis: bounded abstract interpretation of MarkerExpression.specifier/_get_specifier, from_specifier and evaluate from source on operator x value-shape classes (packaging replaced by a PEP 440 model)",
        text="Bounded: for python_version (values X, X.Y) and python_full_version (X.Y, X.Y.Z) atoms with every comparison operator, ~=, wildcards and python_version in/not in lists, `v in atom.specifier` equals atom.evaluate for every candidate interpreter; from_specifier on every simple specifier shape returns None or an equivalent atom; routing table of version-like names. Two known findings (PEP 508 substring semantics of `in` vs the version-list view).",
        note="trusts: vsa/pkgmodel.py; candidate grid 2.7..4.0",
        ref="DESIGN.md §4 C11", thorough=False),
    "C17": dict(
        technique="static analysis: partial evaluation of _from_pkg_specifier on a finite grammar of PEP 440 text shapes (raise-freedom), AST cross-read of packaging's operator table, abstract interpretation of parse_version_specifier's exception translation",
        text="Structural clauses only: every operator of packaging's Specifier._operators is handled; none of ~5000 valid text shapes (epochs, all pre/post/dev spellings/separators/case, 1-4 segments, wildcards, ~=) makes the parser's own arithmetic raise; valid sets / `||` / `<empty>` parse; texts rejected by the modelled grammar raise dep_logic's InvalidSpecifier and nothing else; from_specifierset is total on non-=== sets. Equality of the accepted language with packaging's regexes is not decided.",
        note="trusts: PEP 440 grammar in vsa/pkgspec.py and vsa/pkgmodel.py in place of packaging's regexes",
        ref="DESIGN.md §4 C17", thorough=False),
    "C03": dict(
        technique="static analysis: operator tables extracted from the AST vs the PEP 508 vocabulary; bounded abstract interpretation of parse_marker/_build_markers/evaluate from source on texts generated from a PEP 508 grammar, against an independent grammar + semantics",
        text="Table and glue clauses + bounded behaviour: _operators / _op_map / invert_map / _op_reflect_map agree with PEP 508 (canonical comparison, complement, converse); for ~2000 generated marker texts (atoms in both operand orders, and/or/parentheses, precedence-sensitive forms) the interpreted parse_marker denotes the PEP 508 meaning on the environment grid and evaluate() agrees, incl. context defaults, PEP 685 normalisation, set-valued extras/dependency_groups and pre-release interpreters; the VARIABLE token rule installed into the tokenizer matches exactly the marker variable names. Reference = PEP 508 semantics (own grammar + PEP 440 model), NOT packaging's code; three known findings (literal-on-the-left atoms with operators lacking a converse).",
        note="trusts: vsa/markdomain.py grammar/semantics and vsa/pkgmodel.py in place of packaging",
        ref="DESIGN.md §4 C03", thorough=True),
    "C10": dict(
        technique="static analysis: def-use / escape analysis over the AST of every memoised function (cache key = arguments' __eq__/__hash__) and of every attribute-store site",
        text="All histories, by construction: inventory of every lru_cache/cache/cached_property; a memoised function with marker parameters must not return/embed or read state the key ignores (fields outside __eq__/__hash__); no attribute store on instances outside constructors except the memoisation of a pure function of self (private attribute, value independent of the call's arguments, read nowhere else); string-keyed caches read only their argument; memoised functions do not render text from equality-keyed specifier arguments; no module-level container is written at call time in code reachable from the marker algebra; memoised values are not mutated in place; the _specifier cache field is seeded only by the bridge with its own argument and never copied by dataclasses.replace together with a changed compared field; caches created by a call (lru_cache(...)(fn)) are inventoried too. Nine known findings at five constructs (cnf/dnf/_merge_single_markers return their argument while MarkerExpression.reversed, and the element order of the ==/!= value sets, are outside the key). Whether a given history shows a difference is a run and is not decided.",
        note="trusts: functools.lru_cache keys by __hash__/__eq__",
        ref="DESIGN.md §4 C10", thorough=False),
    "C13": dict(
        technique="static analysis: class-table rules (dataclass eq/hash field sets, hand-written __eq__/__hash__), def-use classification of compare=False fields, abstract interpretation of == and a structural hash model over the specifier operand domain and the explored marker universe",
        text="Class-table complete + bounded ABSINT: every dataclass compares and hashes the same fields; on all operand pairs over K tokens (both universal spellings) == is reflexive, symmetric, transitive and equal objects have equal hashes (hash formulas modelled structurally); equal markers of the explored universe (incl. reversed-spelling and cache-carrying twins) denote the same environments; every compare=False field is a cache or presentation hint; if __eq__/__hash__ inspect versions beyond comparison the specifier matrix is recomputed on concrete pools with twin spellings. One known finding (MarkerExpression.reversed is semantic for in/not in/~=/===).",
        note="trusts: structural hash model (equal only if same formula on equal parts)",
        ref="DESIGN.md §4 C13", thorough=True),
}

NOT_APPLICABLE = {
}

PENDING = "check under construction (see DESIGN.md §4); not yet claimed"


def main():
    checks = []
    for pid, c in sorted(CLAIMED.items()):
        e = {
            "property_id": pid,
            "quick_cmd": f"./check {pid}",
            "evidence_file": f"evidence/{pid}.json",
            "replay_cmd_template": f"./check {pid} --replay {{path}}",
            "engine": "vsa",
            "level_claimed": {"category": "other", "text": c["text"], "design_ref": c["ref"]},
            "level_note": c["note"],
            "technique": c["technique"],
        }
        if c.get("thorough"):
            e["thorough_cmd"] = f"VERIF_TIER=thorough ./check {pid}"
        checks.append(e)
    na = []
    for i in range(1, 20):
        pid = f"C{i:02d}"
        if pid in CLAIMED:
            continue
        na.append({"property_id": pid, "reason": NOT_APPLICABLE.get(pid, PENDING)})
    man = {
        "version": 1,
        "setup_cmd": "true",
        "hooks": {
            "guard": "DEP_LOGIC_VERIF",
            "enable": "none needed: the checks are static (they read /repo's source with ast and never import or run it); the guard is declared, no hook exists in /repo",
            "baseline_off_cmd": "cd /repo && /venv/bin/python -m pytest -ra -q -p no:cacheprovider --timeout=900 --continue-on-collection-errors",
            "source_commits": [],
            "add_only": True,
        },
        "engines": [
            {"name": "vsa", "path": "vsa/", "serves_properties": sorted(CLAIMED),
             "kind_free_text": "stdlib-only static analyser for this repository: source model + rule/fact extraction over the AST (RULES) and a path-recording abstract interpreter / partial evaluator over finite abstract domains (ABSINT); never imports or runs dep_logic or packaging"},
        ],
        "checks": checks,
        "notes": "All checks: ./check <id> [--repo DIR]; VERIF_TIER=quick|thorough; exit 0/1/2 (2 = ANALYSIS-ERROR, fail closed). Known findings: known_findings.json. Self-validation corpus: selftest/run.py.",
        "not_applicable": na,
    }
    (VERIF / "MANIFEST.json").write_text(json.dumps(man, indent=1) + "\n")
    print(f"claimed={len(checks)} not_applicable={len(na)}")


if __name__ == "__main__":
    main()
