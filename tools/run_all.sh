#!/bin/sh
# tools/run_all.sh [quick|thorough] [evidence_dir]  — runs every check once, prints one status line per check
TIER=${1:-quick}
EV=${2:-}
cd "$(dirname "$0")/.."
for i in 01 02 03 04 05 06 07 08 09 10 11 12 13 14 15 16 17 18 19; do
  s=$(date +%s)
  if [ -n "$EV" ]; then export VERIF_EVIDENCE_DIR="$EV"; fi
  VERIF_TIER=$TIER ./check C$i > /tmp/run_all_C$i.log 2>&1
  rc=$?
  e=$(date +%s)
  echo "C$i rc=$rc $((e-s))s $(grep -c KNOWN-FINDING /tmp/run_all_C$i.log) known; $(tail -1 /tmp/run_all_C$i.log | cut -c1-160)"
done
