"""Prints the markdown table of seeded changes (seeded/*/meta.json + result.json) for DESIGN.md §A.4."""
import json
import pathlib

root = pathlib.Path(__file__).resolve().parent.parent / "seeded"
print("| seeded change | property | what it needs to manifest | caught by (quick tier) | own check |")
print("|---|---|---|---|---|")
for d in sorted(root.iterdir()):
    if not (d / "meta.json").exists():
        continue
    m = json.loads((d / "meta.json").read_text())
    r = json.loads((d / "result.json").read_text()) if (d / "result.json").exists() else {}
    needs = (m.get("needs_to_manifest") or "").replace("|", "/").replace("\n", " ")
    if len(needs) > 150:
        needs = needs[:147] + "..."
    caught = r.get("caught_by") or []
    own = "yes" if m.get("property") in caught else "NO"
    print(f"| `{d.name}` | {m.get('property')} | {needs} | {', '.join(caught) or '—'} | {own} |")
