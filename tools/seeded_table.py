"""Prints the markdown table of seeded changes (seeded/*/meta.json + result.json + summary.json) for DESIGN.md §A.4."""
import json
import pathlib

root = pathlib.Path(__file__).resolve().parent.parent / "seeded"
summ = json.loads((root / "summary.json").read_text()) if (root / "summary.json").exists() else {}
cross = summ.get("cross_detection", {})
missed = summ.get("missed_in_first_round", {})
print("| change | site | needs to manifest | caught by (all quick checks) | first round |")
print("|---|---|---|---|---|")
for d in sorted(root.iterdir()):
    if not (d / "meta.json").exists():
        continue
    m = json.loads((d / "meta.json").read_text())
    needs = (m.get("needs_to_manifest") or "").replace("|", "/").replace("\n", " ")
    if len(needs) > 140:
        needs = needs[:137] + "..."
    site = (m.get("summary") or "").replace("|", "/").replace("\n", " ")
    if len(site) > 90:
        site = site[:87] + "..."
    caught = cross.get(d.name, {}).get("caught_by_all_checks") or json.loads((d / "result.json").read_text()).get("caught_by", [])
    fr = "missed: " + missed[d.name] if d.name in missed else "caught"
    print(f"| `{d.name}` | {site} | {needs} | {', '.join(caught)} | {fr} |")
