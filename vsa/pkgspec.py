"""Partial evaluation of `_from_pkg_specifier` (specifiers/__init__.py) over a finite grammar of
PEP 440 *text shapes* with `packaging.version.Version` kept opaque (a text-labelled token).

What is interpreted is only the repository's own textual arithmetic (version_split, is_not_suffix,
takewhile, `int(parts[-1]) + 1`, join) — the part that decides which bound *texts* are produced.
The oracle is an independent PEP 440 table (operator -> bounds) computed by this module's own parser
of the version grammar (PEP 440 appendix B).  Bounds are compared as normalised keys
(epoch, release without trailing zeros, pre, post, dev).

Used by C01 (R01.5 shapes), C04 (R04.3 numbers), C17 (R17.2 raise discipline on valid texts).
"""
from __future__ import annotations

import re

from .absint import (AObj, AnalysisError, BuiltinExcValue, EXC, Interp, PyRaise, Sym, VTok, MISSING)

_PEP440 = re.compile(r"""^\s*v?
    (?:(?P<epoch>[0-9]+)!)?
    (?P<release>[0-9]+(?:\.[0-9]+)*)
    (?P<pre>[-_\.]?(?P<pre_l>alpha|a|beta|b|preview|pre|c|rc)[-_\.]?(?P<pre_n>[0-9]+)?)?
    (?P<post>(?:-(?P<post_n1>[0-9]+))|(?:[-_\.]?(?P<post_l>post|rev|r)[-_\.]?(?P<post_n2>[0-9]+)?))?
    (?P<dev>[-_\.]?(?P<dev_l>dev)[-_\.]?(?P<dev_n>[0-9]+)?)?
    \s*$""", re.VERBOSE | re.IGNORECASE)

_PRE = {"alpha": "a", "a": "a", "beta": "b", "b": "b", "c": "rc", "rc": "rc", "pre": "rc", "preview": "rc"}


def vkey(text):
    """normalised PEP 440 key of a version text, or None if not a public version."""
    m = _PEP440.match(text)
    if not m:
        return None
    rel = [int(x) for x in m.group("release").split(".")]
    while len(rel) > 1 and rel[-1] == 0:
        rel.pop()
    pre = None
    if m.group("pre"):
        pre = (_PRE[m.group("pre_l").lower()], int(m.group("pre_n") or 0))
    post = None
    if m.group("post"):
        post = int(m.group("post_n1") or m.group("post_n2") or 0)
    dev = None
    if m.group("dev"):
        dev = int(m.group("dev_n") or 0)
    return (int(m.group("epoch") or 0), tuple(rel), pre, post, dev)


def release_of(text):
    m = _PEP440.match(text)
    return (int(m.group("epoch") or 0), [int(x) for x in m.group("release").split(".")])


def bump_key(epoch, rel):
    rel = list(rel)
    rel[-1] += 1
    while len(rel) > 1 and rel[-1] == 0:
        rel.pop()
    return (epoch, tuple(rel), None, None, None)


class VText(VTok):
    """Version(text) kept opaque: carries the text it was built from; supports no operation."""
    __slots__ = ("text",)

    def __init__(self, text):
        self.rank = None
        self.text = text

    def __repr__(self):
        return f"Version({self.text!r})"

    def __hash__(self):
        return hash(("VText", self.text))

    def __eq__(self, o):
        return isinstance(o, VText) and o.text == self.text


class FakeSpec(Sym):
    """Stand-in for packaging.specifiers.Specifier: .operator, .version, str()."""

    def __init__(self, op, version):
        self.sym_operator = op
        self.sym_version = version

    def __str__(self):
        return f"{self.sym_operator}{self.sym_version}"

    def __repr__(self):
        return f"Specifier({self})"


class FakeSet(Sym):
    """Stand-in for a one-clause packaging.specifiers.SpecifierSet (iteration and len only)."""

    def __init__(self, specs):
        self.specs = list(specs)

    def sym_iter(self):
        return list(self.specs)

    def sym_len(self):
        return len(self.specs)

    def __repr__(self):
        return f"SpecifierSet({','.join(map(str, self.specs))})"


# ------------------------------------------------------------------ text-shape grammar
def shapes():
    """(label, operator, version text) — finite grammar of valid PEP 440 specifier clauses."""
    out = []
    releases = {"1seg": "1", "2seg": "1.2", "3seg": "1.2.3", "4seg": "1.2.3.4", "2seg-z": "1.0", "3seg-z": "1.2.0",
                "2seg-9": "1.9", "2seg-10": "3.10", "3seg-99": "2.99.9"}
    epochs = {"": "", "epoch": "1!", "epoch0": "0!", "v": "v", "V-epoch": "V2!"}
    suffixes = {
        "": "",
        "pre-a": "a1", "pre-b": "b2", "pre-rc": "rc3", "pre-c": "c1", "pre-alpha": "alpha1", "pre-beta": "beta2",
        "pre-pre": "pre1", "pre-preview": "preview1", "pre-.a": ".a1", "pre-.rc": ".rc1", "pre-.c": ".c1",
        "pre--a": "-a1", "pre-_b": "_b1", "pre-.pre": ".pre1", "pre-.preview": ".preview2",
        "pre-A": "A1", "pre-RC": "RC1", "pre-.RC": ".RC1",
        "post": ".post1", "post-nosep": "post1", "post-dash": "-post1", "post-rev": ".rev1", "post-r": ".r1",
        "post-implicit": "-1", "post-POST": ".POST1", "post-Rev": ".Rev2", "post-_": "_post1",
        "dev": ".dev1", "dev-nosep": "dev1", "dev-dash": "-dev1", "dev-DEV": ".DEV1",
        "pre+post": "a1.post2", "pre+dev": "b1.dev3", "post+dev": ".post1.dev2", "pre+post+dev": "rc1.post2.dev3",
    }
    for ek, e in epochs.items():
        for rk, r in releases.items():
            for sk, s in suffixes.items():
                text = f"{e}{r}{s}"
                if vkey(text) is None:
                    continue
                lab = "/".join(x for x in (ek, rk, sk) if x)
                for op in (">", ">=", "<", "<=", "==", "!="):
                    if op in (">", "<") and rk not in ("2seg", "3seg") and sk:
                        continue  # thin the grid: comparison ops do no text arithmetic
                    out.append((lab, op, text))
                if len(release_of(text)[1]) >= 2:
                    out.append((lab, "~=", text))
            # wildcards: only on bare releases
            for op in ("==", "!="):
                out.append(("/".join(x for x in (ek, rk, "wild") if x), op, f"{e}{r}.*"))
    out.append(("arbitrary", "===", "1.2"))
    out.append(("arbitrary-text", "===", "foobar"))
    return out


def oracle(op, text):
    """PEP 440 operator table -> ("range", minkey, maxkey, imin, imax) | ("union", r1, r2) | ("arbitrary", text)."""
    if op == "===":
        return ("arbitrary", text)
    if text.endswith(".*"):
        e, rel = release_of(text[:-2])
        lo = (e, tuple(_strip(rel)), None, None, None)
        hi = bump_key(e, rel)
        if op == "==":
            return ("range", lo, hi, True, False)
        return ("union", ("range", None, lo, False, False), ("range", hi, None, True, False))
    k = vkey(text)
    if op == ">":
        return ("range", k, None, False, False)
    if op == ">=":
        return ("range", k, None, True, False)
    if op == "<":
        return ("range", None, k, False, False)
    if op == "<=":
        return ("range", None, k, False, True)
    if op == "==":
        return ("range", k, k, True, True)
    if op == "!=":
        return ("union", ("range", None, k, False, False), ("range", k, None, False, False))
    if op == "~=":
        e, rel = release_of(text)
        return ("range", k, bump_key(e, rel[:-1]), True, False)
    raise AssertionError(op)


def _strip(rel):
    rel = list(rel)
    while len(rel) > 1 and rel[-1] == 0:
        rel.pop()
    return rel


# ------------------------------------------------------------------ code side
class PkgSpecRunner:
    def __init__(self, src):
        self.it = it = Interp(src)
        it.max_steps = 2_000_000
        it.opaque_calls["Version"] = self._version
        self.mod = it.module("dep_logic.specifiers")
        # the per-clause converter is a private helper: when it has been renamed / inlined, the same table is derived through the
        # public from_specifierset() on one-clause sets (the fold with the universal range is the identity by C01)
        self.fn = self.mod.ns.get("_from_pkg_specifier")
        self.pub = self.mod.ns.get("from_specifierset")
        if self.fn is None and self.pub is None:
            raise AnalysisError("anchor dep_logic.specifiers:from_specifierset missing")
        self.Range = it.resolve(self.mod.ns["RangeSpecifier"])
        self.Union = it.resolve(self.mod.ns["UnionSpecifier"])
        self.Arb = it.resolve(self.mod.ns["ArbitrarySpecifier"])

    def _version(self, text):
        if not isinstance(text, str):
            raise AnalysisError(f"Version() of non-text {text!r}")
        from .pkgmodel import VersionVal
        return VersionVal(text)   # raises InvalidVersion (PyRaise) on non-PEP 440 text

    def run(self, op, text):
        it = self.it
        it.trace.clear()
        try:
            if self.fn is not None:
                r = it.call(self.fn, [FakeSpec(op, text)], {})
            else:
                r = it.call(self.pub, [FakeSet([FakeSpec(op, text)])], {})
        except PyRaise as e:
            exc = e.exc
            name = exc.cls.name if isinstance(exc, (AObj, BuiltinExcValue)) else repr(exc)
            return ("raise", name, self._path())
        return self._describe(r) + (self._path(),)

    def _path(self):
        return [f"L{ln}={'T' if c is True else 'F' if c is False else c}" for fn, ln, c in self.it.trace
                if fn.startswith("dep_logic.specifiers:")]

    def _rng(self, r):
        def k(v):
            if v is None:
                return None
            if not hasattr(v, "text"):
                raise AnalysisError(f"bound is not Version(...): {v!r}")
            return vkey(v.text)
        return ("range", k(r.f["min"]), k(r.f["max"]), r.f["include_min"], r.f["include_max"])

    def _describe(self, r):
        if not isinstance(r, AObj):
            return ("weird", repr(r))
        if r.cls is self.Range:
            return self._rng(r)
        if r.cls is self.Union:
            rs = r.f["ranges"]
            return ("union",) + tuple(self._rng(x) for x in rs)
        if r.cls is self.Arb:
            return ("arbitrary", r.f["target"])
        return ("weird", r.cls.name)


_CACHE = {}


def table(src):
    """all (label, op, text, derived, expected) rows for the current source."""
    key = str(src)
    if key not in _CACHE:
        run = PkgSpecRunner(src)
        rows = []
        for lab, op, text in shapes():
            got = run.run(op, text)
            rows.append((lab, op, text, got[:-1], oracle(op, text), got[-1]))
        _CACHE[key] = rows
    return _CACHE[key]


FN = "dep_logic.specifiers:_from_pkg_specifier"


def opclass(op, text):
    return f"{op}wild" if text.endswith(".*") else op


def check_shapes(chk, rid):
    """C01 R01.5: per operator, which bounds are set and with which inclusivity (numbers ignored)."""
    rows = table(chk.src)

    def shape(d):
        if d[0] == "range":
            return ("range", d[1] is not None, d[2] is not None, d[3], d[4], d[1] is not None and d[1] == d[2])
        if d[0] == "union":
            return ("union",) + tuple(shape(x) for x in d[1:])
        return (d[0],)
    seen = set()
    for lab, op, text, got, exp, path in rows:
        oc = opclass(op, text)
        if got[0] == "raise":
            continue  # raise discipline is C17's
        seen.add(oc)
        if shape(got) != shape(exp):
            chk.fail(rid, f"{FN}:{oc}", f"operator {oc} on '{op}{text}' yields shape {shape(got)}, PEP 440 table says {shape(exp)}",
                     {"text": op + text, "derived": got, "expected": exp, "path": path})
        else:
            chk.ok(rid, key=(oc, lab))
    chk.instance(rid, len(seen))


def check_numbers(chk, rid):
    """C04 R04.3: the bound *values* produced by the textual arithmetic equal the PEP 440 table."""
    rows = table(chk.src)
    n = 0
    for lab, op, text, got, exp, path in rows:
        oc = opclass(op, text)
        if got[0] == "raise":
            continue
        n += 1
        if got != exp:
            chk.fail(rid, f"{FN}:{oc}:{lab}", f"'{op}{text}' is translated to {got}, PEP 440 says {exp}",
                     {"text": op + text, "derived": got, "expected": exp, "path": path})
        else:
            chk.ok(rid, key=(oc, lab))
    chk.instance(rid, n)


def check_raises(chk, rid):
    """C17 R17.2: no valid specifier text makes the textual arithmetic raise."""
    rows = table(chk.src)
    for lab, op, text, got, exp, path in rows:
        oc = opclass(op, text)
        if got[0] == "raise":
            chk.fail(rid, f"{FN}:{oc}:{lab}", f"valid specifier '{op}{text}' raises {got[1]} instead of returning a specifier",
                     {"text": op + text, "exception": got[1], "path": path})
        else:
            chk.ok(rid, key=(oc, lab))
    chk.instance(rid, len(rows))
