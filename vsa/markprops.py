"""Judges over the marker exploration for C07, C12, C13 (marker half), C15."""
from __future__ import annotations

import itertools

from .absint import AnalysisError, PyRaise
from . import markexplore as mx
from .markdomain import MarkerTextError, Undefined, parse_marker_text, tree_mask

ALL_NAMES = ["os_name", "sys_platform", "extra", "python_version", "python_full_version", "platform_release"]
# names that are NOT mentioned by any explored marker but are substrings / superstrings of mentioned ones
FOREIGN_NAMES = ["extras", "dependency_groups", "python", "name", "os_name_", "platform", "python_version_", "ext"]
B = mx.STEP_BUDGET


def _cls(m):
    return f"{m.cls.module.name}:{m.cls.name}"


# ------------------------------------------------------------------------------------------------ C15
def c15_op(dom, J, opn, a, b, kind, r):
    if kind != "ok":
        return
    why = dom.normal_form(r)
    expr = f"({dom.show(a)}) {opn} ({dom.show(b)})"
    if dom.den(a) not in (0, dom.envs.full) and dom.den(b) not in (0, dom.envs.full):
        J.nontriv += 1
    if why:
        J.fail("R15.1", dom.blame(_cls(a) + ("__and__" if opn == "&" else "__or__")),
               f"{expr} -> {dom.show(r)} is not in normal form: {why}", {"expr": expr, "path": dom.path()})
    elif len(J.samples) < 1 and J.n % 131 == 7:
        J.samples.append({"expr": expr, "result": dom.show(r), "normal_form": True})


mx.register("c15", c15_op)


def c15_u(dom, J, m):
    """normal form of only()/exclude()/without_extras()/parse_marker(str(m)) results"""
    names = sorted(dom.names(m))
    calls = [("only", (n,)) for n in names] + [("exclude", (n,)) for n in names] + [("without_extras", ())]
    if len(names) >= 2:
        calls.append(("only", tuple(names[:2])))
    for meth, args in calls:
        J.n += 1
        try:
            r = dom.call(m, meth, *args, budget=B)
        except PyRaise as e:
            J.fail("R15.4", f"{_cls(m)}.{meth}", f"({dom.show(m)}).{meth}{args} raises {e.exc!r}")
            continue
        why = dom.normal_form(r)
        if why:
            J.fail("R15.4", dom.blame(f"{_cls(m)}.{meth}"), f"({dom.show(m)}).{meth}{args} -> {dom.show(r)} is not in normal form: {why}",
                   {"path": dom.path()})
        else:
            J.nontriv += 1
    # parse_marker(str(m))
    if m.cls in (dom.Any, dom.Empty):
        return
    J.n += 1
    try:
        text = dom.to_text(m)
        r = dom.parse(text, budget=B)
    except PyRaise as e:
        return  # C07's business
    why = dom.normal_form(r)
    if why:
        J.fail("R15.5", dom.blame("dep_logic.markers:_build_markers"), f"parse_marker({text!r}) -> {dom.show(r)} is not in normal form: {why}",
               {"path": dom.path()})


mx.register_u("c15", c15_u)


# ------------------------------------------------------------------------------------------------ C12
def c12_u(dom, J, m):
    names = sorted(dom.names(m))
    dm = dom.den(m)
    foreign = [n for n in ALL_NAMES if n not in names]
    subsets = []
    for k in range(0, len(names) + 1):
        for s in itertools.combinations(names, k):
            subsets.append(s)
            if foreign and k < 2:
                subsets.append(s + (foreign[0],))
    if names:
        subsets.append(tuple(n + "s" for n in names))       # superstrings of every mentioned name: nothing may survive
        subsets.append(tuple(n[:-1] for n in names))        # proper prefixes
    for S in subsets[:14]:
        J.n += 1
        try:
            r = dom.call(m, "only", *S, budget=B)
        except PyRaise as e:
            J.fail("R12.1", f"{_cls(m)}.only", f"({dom.show(m)}).only{S} raises {e.exc!r}")
            continue
        rn = dom.names(r)
        dr = dom.den(r)
        if m.cls in (dom.MM, dom.MU):
            J.nontriv += 1
        if not rn <= set(S):
            J.fail("R12.1", dom.blame(f"{_cls(m)}.only"), f"({dom.show(m)}).only{S} -> {dom.show(r)} mentions {sorted(rn - set(S))}", {"path": dom.path()})
        elif dm & ~dr:
            J.fail("R12.1", dom.blame(f"{_cls(m)}.only"), f"({dom.show(m)}).only{S} -> {dom.show(r)} is not implied by the marker: "
                   f"environment {dom.first_diff(dm & ~dr, 0)} satisfies m but not the result", {"path": dom.path()})
        elif set(names) <= set(S) and dr != dm:
            J.fail("R12.1", dom.blame(f"{_cls(m)}.only"), f"({dom.show(m)}).only{S} -> {dom.show(r)} changes the meaning although m mentions only those names",
                   {"path": dom.path()})
    for n in ALL_NAMES + FOREIGN_NAMES:
        for meth, args in ((("exclude", (n,)),) + ((("without_extras", ()),) if n == "extra" else ())):
            J.n += 1
            try:
                r = dom.call(m, meth, *args, budget=B)
            except PyRaise as e:
                J.fail("R12.2", f"{_cls(m)}.{meth}", f"({dom.show(m)}).{meth}{args} raises {e.exc!r}")
                continue
            rn = dom.names(r)
            if n in rn:
                J.fail("R12.2", dom.blame(f"{_cls(m)}.{meth}"), f"({dom.show(m)}).{meth}{args} -> {dom.show(r)} still mentions {n}", {"path": dom.path()})
            elif n not in names and dom.den(r) != dm:
                J.fail("R12.2", dom.blame(f"{_cls(m)}.{meth}"), f"({dom.show(m)}).{meth}{args} -> {dom.show(r)} changes the meaning although {n} is not mentioned",
                       {"path": dom.path()})
            elif n in names:
                J.nontriv += 1
    # R12.3: without_extras() is exclude("extra")
    try:
        w = dom.call(m, "without_extras", budget=B)
        e = dom.call(m, "exclude", "extra", budget=B)
        J.n += 1
        if dom.key(w) != dom.key(e):
            J.fail("R12.3", f"{_cls(m)}.without_extras", f"({dom.show(m)}).without_extras() -> {dom.show(w)} differs from exclude('extra') -> {dom.show(e)}")
    except PyRaise:
        pass
    if len(J.samples) < 1 and m.cls in (dom.MM, dom.MU):
        J.samples.append({"marker": dom.show(m), "names": names})


mx.register_u("c12", c12_u)


# ------------------------------------------------------------------------------------------------ C07
def _atoms_of(dom, m):
    if m.cls is dom.ME:
        yield m
    elif m.cls in (dom.MM, dom.MU):
        for c in m.f["markers"]:
            yield from _atoms_of(dom, c)


def c07_u(dom, J, m):
    _c07_one(dom, J, m, "")
    # R07.9: rendering must not depend on lazily attached caches — fill every atom's specifier view (as any earlier & / | would) and render again
    filled = False
    for a in _atoms_of(dom, m):
        try:
            dom.it.getattr(a, "specifier")
            filled = True
        except PyRaise:
            pass
    if filled:
        _c07_one(dom, J, m, " [after the atoms' specifier caches were filled]")
    if m.cls in (dom.MM, dom.MU):
        names = sorted(dom.names(m))
        for meth, args in [("without_extras", ())] + [("exclude", (n,)) for n in names[:2]] + [("only", (n,)) for n in names[:2]]:
            try:
                r = dom.call(m, meth, *args, budget=B)
            except PyRaise:
                continue  # C12 / C15 report raising calls
            _c07_one(dom, J, r, f" [= ({dom.show(m)}).{meth}{args}]")


def _c07_one(dom, J, m, origin):
    J.n += 1
    try:
        text = dom.to_text(m)
    except PyRaise as e:
        J.fail("R07.6", f"{_cls(m)}.__str__", f"str({dom.show(m)}) raises {e.exc!r}")
        return
    if m.cls is dom.Any:
        if text != "":
            J.fail("R07.3", f"{_cls(m)}.__str__", f"universal marker renders as {text!r}, not ''")
        return
    if m.cls is dom.Empty:
        if text != "<empty>":
            J.fail("R07.3", f"{_cls(m)}.__str__", f"empty marker renders as {text!r}, not '<empty>'")
        return
    if "<empty>" in text or not text.strip():
        J.fail("R07.5", f"{_cls(m)}.__str__", f"{dom.show(m)} renders as {text!r}{origin}")
        return
    dm = dom.den(m)
    J.nontriv += 1
    try:
        tree = parse_marker_text(text)
        tm = tree_mask(dom.envs, tree)
    except MarkerTextError as e:
        J.fail("R07.6", f"{_cls(m)}.__str__", f"str({dom.show(m)}) = {text!r} is not a valid PEP 508 marker: {e}{origin}")
        return
    if tm != dm:
        J.fail("R07.1", f"{_cls(m)}.__str__", f"{dom.show(m)} renders as {text!r}, which under PEP 508 precedence means something else: "
               f"differs at {dom.first_diff(tm, dm)}", {"text": text})
        return
    J.n += 1
    try:
        r = dom.parse(text, budget=B)
    except PyRaise as e:
        J.fail("R07.7", "dep_logic.markers:parse_marker", f"parse_marker({text!r}) raises {e.exc!r}")
        return
    if dom.den(r) != dm:
        J.fail("R07.7", dom.blame("dep_logic.markers:_build_markers"), f"parse_marker(str(m)) for m = {dom.show(m)} gives {dom.show(r)}, "
               f"which differs at {dom.first_diff(dom.den(r), dm)}", {"text": text, "path": dom.path()})
    if m.cls is dom.ME and tree[0] == "atom" and m.f["name"] in ("python_version", "python_full_version", "platform_release"):
        # PEP 440's exclusive ordering is asymmetric on pre-/post-releases: the printed operand order must be the atom's own
        from .markdomain import atom_truth, REFLECT
        from .props.c02 import OBS_PRERELEASE
        own = (m.f["name"], REFLECT.get(m.f["op"], m.f["op"]) if m.f.get("reversed") else m.f["op"], m.f["value"], bool(m.f.get("reversed")))
        for full in OBS_PRERELEASE:
            val = full if m.f["name"] != "python_version" else ".".join(full.split(".")[:2])
            try:
                if atom_truth(*own, val) != atom_truth(tree[1], tree[2], tree[3], tree[4], val):
                    J.fail("R07.1", f"{_cls(m)}.__str__:prerelease-env", f"{dom.show(m)} renders as {text!r}, which means something else at {m.f['name']}={val!r} "
                           f"(PEP 440 exclusive ordering depends on the operand order){origin}")
                    break
            except Undefined:
                break
    if len(J.samples) < 1:
        J.samples.append({"marker": dom.show(m), "text": text, "reparsed": dom.show(r)})


mx.register_u("c07", c07_u)
