"""Syntax-directed rules on the marker rewriting layer (RULES engine): polarity facts of MultiMarker.of /
MarkerUnion.of, exit shapes, constructor flattening.  Facts are extracted from the AST (guards of `continue`
and `return` statements, operators applied to loop variables) and compared with the Boolean-algebra table —
never with source text or positions."""
from __future__ import annotations

import ast

from .report import norm
from .rules_common import iter_sources

KINDS = {
    "MultiMarker": dict(file="markers/multi.py", neutral="is_any", absorbing="is_empty", neutral_ctor="AnyMarker",
                        absorbing_ctor="EmptyMarker", op=ast.BitAnd, simplify="intersect_simplify", partner="MarkerUnion"),
    "MarkerUnion": dict(file="markers/union.py", neutral="is_empty", absorbing="is_any", neutral_ctor="EmptyMarker",
                        absorbing_ctor="AnyMarker", op=ast.BitOr, simplify="union_simplify", partner="MultiMarker"),
}


def load_class(chk, rel, clsname):
    for r, tree in iter_sources(chk):
        if r == rel:
            for n in tree.body:
                if isinstance(n, ast.ClassDef) and n.name == clsname:
                    return n
    chk.broken(f"anchor class {clsname} not found in {rel}")


def method(chk, cls, name):
    for n in cls.body:
        if isinstance(n, ast.FunctionDef) and n.name == name:
            return n
    chk.broken(f"anchor {cls.name}.{name} missing")


def guarded(fn):
    """yield (stmt, guards) for every statement; guards = [(test, polarity)] of enclosing ifs, innermost last."""
    def rec(stmts, guards):
        for st in stmts:
            yield st, guards
            if isinstance(st, ast.If):
                yield from rec(st.body, guards + [(st.test, True)])
                yield from rec(st.orelse, guards + [(st.test, False)])
            elif isinstance(st, (ast.For, ast.While)):
                yield from rec(st.body, guards)
                yield from rec(st.orelse, guards)
            elif isinstance(st, ast.Try):
                yield from rec(st.body, guards)
                for h in st.handlers:
                    yield from rec(h.body, guards)
                yield from rec(st.orelse, guards)
                yield from rec(st.finalbody, guards)
            elif isinstance(st, ast.With):
                yield from rec(st.body, guards)
    yield from rec(fn.body, [])


def calls_method(test, meth):
    """does the test contain a call `<x>.meth()`?"""
    for n in ast.walk(test):
        if isinstance(n, ast.Call) and isinstance(n.func, ast.Attribute) and n.func.attr == meth:
            return True
    return False


def ctor_name(node):
    if isinstance(node, ast.Call) and isinstance(node.func, ast.Name) and not node.args and not node.keywords:
        return node.func.id
    return None


def suspect(chk, rid, construct, what, detail=None):
    """A syntactic idiom check that does not recognise the code any more.  This is NOT a verdict: a behaviour-preserving refactoring
    (a guard moved into a helper, a loop extracted) changes the shape too.  The fact is recorded as a note; the polarity / flattening
    behaviour itself is decided by the interpreted clauses (absorbing and neutral operands are explored exhaustively)."""
    chk.notes.append(f"{rid} (syntactic, advisory): {construct}: {what}")


def of_exit_shapes(chk, rid):
    """R15.2 + R02.3 polarity facts for both `of` fix-points."""
    for kname, k in KINDS.items():
        cls = load_class(chk, k["file"], kname)
        of = method(chk, cls, "of")
        chk.instance(rid)
        mod = "dep_logic." + k["file"][:-3].replace("/", ".")
        base = f"{mod}:{kname}.of"
        n_cont = n_ret = n_merge = 0
        for st, guards in guarded(of):
            if isinstance(st, ast.Continue):
                n_cont += 1
                if not guards:
                    continue
                test, pol = guards[-1]
                if pol and calls_method(test, k["absorbing"]) and not calls_method(test, k["neutral"]):
                    suspect(chk, rid, f"{base}:continue-under-{k['absorbing']}",
                             f"{kname}.of drops an operand under a `{k['absorbing']}()` test: the absorbing element of "
                             f"{'and' if kname == 'MultiMarker' else 'or'} must short-circuit, only the neutral one (`{k['neutral']}()`) may be dropped "
                             f"(line {st.lineno})")
                else:
                    chk.ok(rid, key=(kname, "continue", norm(ast.unparse(test))))
            elif isinstance(st, ast.Return) and st.value is not None:
                n_ret += 1
                c = ctor_name(st.value)
                if c in (k["neutral_ctor"], k["absorbing_ctor"]):
                    tests = [t for t, p in guards if p]
                    if c == k["absorbing_ctor"]:
                        good = any(calls_method(t, k["absorbing"]) for t in tests)
                        if not good:
                            suspect(chk, rid, f"{base}:return-{c}", f"{kname}.of returns the absorbing constant {c}() on a path not guarded by "
                                     f"a `{k['absorbing']}()` test (line {st.lineno})")
                        else:
                            chk.ok(rid, key=(kname, "ret-absorbing", st.lineno))
                    else:
                        bad = any(calls_method(t, k["absorbing"]) for t in tests)
                        if bad:
                            suspect(chk, rid, f"{base}:return-{c}", f"{kname}.of returns the neutral constant {c}() under a `{k['absorbing']}()` test "
                                     f"(line {st.lineno}); the absorbing constant is {k['absorbing_ctor']}()")
                        else:
                            chk.ok(rid, key=(kname, "ret-neutral", st.lineno))
                elif c in ("AnyMarker", "EmptyMarker"):
                    suspect(chk, rid, f"{base}:return-{c}", f"unexpected constant {c}() returned by {kname}.of")
        # merge step: a BinOp on two names inside the loop must be the class's own operator, simplify call the partner's
        for n in ast.walk(of):
            if isinstance(n, ast.BinOp) and isinstance(n.op, (ast.BitAnd, ast.BitOr)) and isinstance(n.left, ast.Name) and isinstance(n.right, ast.Name):
                n_merge += 1
                if not isinstance(n.op, k["op"]):
                    suspect(chk, rid, f"{base}:merge-operator", f"{kname}.of merges two operands with `{ast.unparse(n)}` — wrong operator for "
                             f"{'conjunction' if kname == 'MultiMarker' else 'disjunction'} (line {n.lineno})")
                else:
                    chk.ok(rid, key=(kname, "merge-op"))
            if isinstance(n, ast.Call) and isinstance(n.func, ast.Attribute) and n.func.attr.endswith("_simplify"):
                n_merge += 1
                if n.func.attr != k["simplify"]:
                    suspect(chk, rid, f"{base}:simplify-call", f"{kname}.of calls {n.func.attr}; expected {k['simplify']} (line {n.lineno})")
                else:
                    chk.ok(rid, key=(kname, "simplify"))
        if not (n_cont >= 1 and n_ret >= 3 and n_merge >= 1):
            chk.notes.append(f"{rid}: {kname}.of no longer has the loop shape this syntactic rule reads (continue={n_cont}, return={n_ret}, "
                             f"merge={n_merge}); the polarity facts are then only covered behaviourally by the ABSINT clauses")


def flatten_classes(chk, rid):
    """R15.3: inside class K every flatten_items(x, C) has C == K."""
    for kname, k in KINDS.items():
        cls = load_class(chk, k["file"], kname)
        mod = "dep_logic." + k["file"][:-3].replace("/", ".")
        found = 0
        for n in ast.walk(cls):
            if isinstance(n, ast.Call) and isinstance(n.func, ast.Name) and n.func.id == "flatten_items" and len(n.args) == 2:
                found += 1
                c = n.args[1]
                cname = c.id if isinstance(c, ast.Name) else ast.unparse(c)
                if cname not in (kname, "cls"):
                    suspect(chk, rid, f"{mod}:{kname}:flatten_items", f"{kname} flattens {cname} instead of its own class (line {n.lineno})")
                else:
                    chk.ok(rid, key=(kname, n.lineno))
        chk.instance(rid)
        if found < 1:
            chk.notes.append(f"{rid}: no flatten_items call site found in {kname} (refactored?); flattening is then only covered by the ABSINT normal-form clauses")
