"""Bounded exploration of the marker algebra through ABSINT (shared by C02, C07, C12, C13, C15).

Level 0: atoms over a small vocabulary (string variables with relation-class literals, `extra`, python_version /
python_full_version with shape-class values, literal-on-the-left variants).
Level 1: every ordered pair of atoms x {&, |}  (exhaustive).
Level 2: distinct level-1 results x atoms and x level-1 results, sampled deterministically (seeded) up to a budget.
Each application is judged by the callbacks of the requesting property.
"""
from __future__ import annotations

import random

from .absint import AnalysisError, PyRaise
from .markdomain import MarkerDomain, Undefined
from .specalg import parallel

STEP_BUDGET = 400_000

CANDS = {
    "os_name": ["a", "b", "ab", "c"],
    "sys_platform": ["a", "b", "ab"],
    "extra": [frozenset(), frozenset({"e1"}), frozenset({"e2"}), frozenset({"e1", "e2"})],
    "platform_release": ["5.4", "5.10.0", "6.1"],
    "extras": [frozenset(), frozenset({"t"}), frozenset({"t-x"})],
    "python_full_version": ["3.0.4", "3.6.5", "3.7.0", "3.7.2", "3.7.5", "3.8.0", "3.8.1", "3.9.0", "3.10.1"],
}


def atom_specs(tier):
    """(name, op, value, literal_left) — the level-0 vocabulary."""
    out = []
    for op in ("==", "!=", "in", "not in"):
        for v in ("a", "b", "ab"):
            out.append(("os_name", op, v, False))
    out += [("os_name", "==", "a", True), ("os_name", "!=", "b", True)]
    for op in ("==", "!="):
        for v in ("a", "b"):
            out.append(("sys_platform", op, v, False))
    for op in ("==", "!="):
        for v in ("e1", "e2"):
            out.append(("extra", op, v, False))
    for op in ("<", "<=", "==", "!=", ">=", ">"):
        for v in ("3.7", "3.8"):
            out.append(("python_version", op, v, False))
    out += [("python_version", "in", "3.7, 3.8", False), ("python_version", "not in", "3.7, 3.8", False),
            ("python_version", "in", "3.8", False), ("python_version", "not in", "3.7", False),
            ("python_version", ">", "3.8", True), ("python_version", "<=", "3.7", True),
            ("python_version", ">", "3", False), ("python_version", ">=", "3", False), ("python_version", "<", "3.10", False),
            ("python_version", "<", "4.0", False), ("python_version", "!=", "3.7.0", False),
            ("python_version", ">=", "3.8.0", False), ("python_version", "~=", "3.7.0", False), ("python_version", "~=", "3.7", False),
            ("python_version", ">=", "3.9", False)]
    for op in ("<", "<=", "==", "!=", ">=", ">"):
        for v in ("3.7.2", "3.8.0"):
            out.append(("python_full_version", op, v, False))
    out += [("python_full_version", ">=", "3.8", False), ("python_full_version", "<", "3.8", False),
            ("python_full_version", "~=", "3.7.2", False), ("python_full_version", "==", "3.7.*", False),
            ("python_full_version", "!=", "3.7.*", False), ("python_full_version", ">", "3.7.2", True),
            ("python_full_version", "<", "4.0", False),
            ("python_full_version", "<", "3.7.2", True), ("python_full_version", ">=", "3.8.0", True), ("python_full_version", "<=", "3.7.2", True)]
    # platform_release: version-like variable whose atoms never merge with the python ones
    for op in ("<", ">=", "==", "!="):
        out.append(("platform_release", op, "5.10", False))
    out += [("platform_release", ">", "5.4", False), ("platform_release", "<=", "6.1", True)]
    if tier == "thorough":
        for op in ("==", "!=", "in", "not in"):
            out.append(("os_name", op, "ba", False))
        out += [("sys_platform", "in", "ab", False), ("sys_platform", "not in", "ab", False),
                ("extra", "==", "E_1", False), ("python_version", "~=", "3.7", False),
                ("python_version", "==", "3.*", False), ("python_full_version", "~=", "3.7", False),
                ("python_version", "not in", "3.6", False), ("python_full_version", "<=", "3.10.1", False)]
    return out


_DOM = {}


def domain(src, tag=None):
    """one interpreter (with its modelled lru_caches) per process and per `tag`; a separate tag gives an isolated, cold instance"""
    import os
    key = (str(src), os.getpid(), tag)
    if key not in _DOM:
        _DOM[key] = MarkerDomain(src, CANDS)
    return _DOM[key]


def build_atoms(dom, tier):
    atoms = []
    for spec in atom_specs(tier):
        a = dom.atom(*spec)
        atoms.append((spec, a))
    return atoms


class Judge:
    """collects failures: (rule, construct, what, detail)"""

    def __init__(self):
        self.fails = []
        self.n = 0
        self.nontriv = 0
        self.skipped = 0
        self.samples = []

    def fail(self, rid, construct, what, detail=None):
        self.fails.append((rid, construct, what, detail))


def level1(task):
    """all ordered atom pairs in [lo, hi) x atoms; returns judge results + distinct result keys"""
    src, tier, lo, hi, judge_name = task
    dom = domain(src)
    judge_fn = _JUDGES[judge_name]
    atoms = build_atoms(dom, tier)
    J = Judge()
    results = {}
    for i in range(lo, hi):
        sa, a = atoms[i]
        for sb, b in atoms:
            for opn in ("&", "|"):
                _apply(dom, J, judge_fn, opn, a, b, results)
    return {"fails": J.fails, "n": J.n, "nontriv": J.nontriv, "skipped": J.skipped, "samples": J.samples,
            "keys": list(results.keys())}


def _apply(dom, J, judge_fn, opn, a, b, results=None):
    ka, kb = dom.key(a), dom.key(b)
    try:
        kind, r = dom.apply(opn, a, b, budget=STEP_BUDGET)
    except AnalysisError as e:
        if "step budget" in str(e):
            J.skipped += 1
            return None
        raise
    J.n += 1
    if dom.key(a) != ka or dom.key(b) != kb:
        which = "left" if dom.key(a) != ka else "right"
        J.fail("R-immutable", dom.blame(f"{a.cls.module.name}:{a.cls.name}"),
               f"({_show_key(ka)}) {opn} ({_show_key(kb)}) mutated its {which} operand (now {dom.show(a if which == 'left' else b)}): markers are shared "
               f"(memoised results, children of other markers), so later operations see the change", {"path": dom.path()})
    if kind == "ok":
        for atom in _me_atoms(dom, r):
            seeded = atom.f.get("_specifier")
            if seeded is None:
                continue
            try:
                fresh = dom.call(atom, "_get_specifier")
                same = dom.it.py_eq(seeded, fresh) and dom.it.py_eq(fresh, seeded)
            except PyRaise:
                continue
            if not same:
                J.fail("R-seeded", dom.blame("dep_logic.markers.single:MarkerExpression.from_specifier"),
                       f"({_show_key(ka)}) {opn} ({_show_key(kb)}) returns the atom {dom.show(atom)} carrying a specifier view that is not the one its own "
                       f"(name, op, value) denote: later merges use the attached view, while equality, hashing and text use the fields", {"path": dom.path()})
                break
    try:
        judge_fn(dom, J, opn, a, b, kind, r)
    except Undefined:
        J.skipped += 1
        return None
    if kind == "ok" and results is not None:
        k = dom.key(r)
        if k not in results:
            results[k] = r
    return r if kind == "ok" else None


def _me_atoms(dom, m):
    if m.cls is dom.ME:
        yield m
    elif m.cls in (dom.MM, dom.MU):
        for c in m.f["markers"]:
            yield from _me_atoms(dom, c)


def _show_key(k):
    if k[0] == "ME":
        return f'{k[1]} {k[2]} "{k[3]}"' + (" [literal-left]" if k[4] else "")
    if k[0] in ("EqualityMarkerUnion", "InequalityMultiMarker"):
        return f"{k[0]}({k[1]}: {list(k[2])})"
    if k[0] in ("MultiMarker", "MarkerUnion"):
        return ("AND[" if k[0] == "MultiMarker" else "OR[") + ", ".join(_show_key(c) for c in k[1:]) + "]"
    return k[0]


def rebuild(dom, key):
    """operand object from its structural key, built through the interpreted constructors/operators' own classes"""
    it = dom.it
    kind = key[0]
    if kind == "TEXT":
        return dom.parse(key[1], budget=STEP_BUDGET)
    if kind == "AnyMarker":
        return dom.any()
    if kind == "EmptyMarker":
        return dom.empty()
    if kind == "ME":
        _, name, op, value, rev = key
        return it.construct(dom.ME, [name, op, value, rev], {})
    if kind in ("EqualityMarkerUnion", "InequalityMultiMarker"):
        cls = dom.EQ if kind == "EqualityMarkerUnion" else dom.NE
        OS = it.resolve(dom.utils.ns["OrderedSet"])
        return it.construct(cls, [key[1], it.construct(OS, [list(key[2])], {})], {})
    cls = dom.MM if kind == "MultiMarker" else dom.MU
    return it.construct(cls, [rebuild(dom, k) for k in key[1:]], {})


def level2(task):
    src, tier, pairs, judge_name = task
    dom = domain(src)
    judge_fn = _JUDGES[judge_name]
    J = Judge()
    cache = {}

    def obj(k):
        if k not in cache:
            cache[k] = rebuild(dom, k)
        return cache[k]
    results = {}
    for ka, kb, opn in pairs:
        try:
            oa, ob = obj(ka), obj(kb)
        except PyRaise as e:
            J.fail("R-ctor", f"{ka[0]}/{kb[0]}.__init__", f"constructing an operand of kind {ka[0]} / {kb[0]} raises {e.exc!r}")
            continue
        _apply(dom, J, judge_fn, opn, oa, ob, results)
    return {"fails": J.fails, "n": J.n, "nontriv": J.nontriv, "skipped": J.skipped, "samples": J.samples,
            "keys": list(results.keys())}


_JUDGES = {}


def register(name, fn):
    _JUDGES[name] = fn


def explore(chk, judge_name, budget2=None, want_keys=False):
    """run level 1 exhaustively and level 2 up to a budget; feed failures into chk. Returns stats."""
    chk.rule("R-ctor", "operands of the exploration are constructible through the repository's constructors")
    chk.rule("R-immutable", "operators do not mutate their operands (operands are shared objects)")
    chk.rule("R-seeded", "an atom returned by an operator carries no specifier view other than the one its compared fields denote")
    src = str(chk.src)
    tier = chk.tier
    dom = domain(src)
    atoms = build_atoms(dom, tier)
    n = len(atoms)
    step = max(1, (n + chk.jobs * 2 - 1) // (chk.jobs * 2))
    tasks = [(src, tier, lo, min(n, lo + step), judge_name) for lo in range(0, n, step)]
    keys = {}
    stats = {"level1_ops": 0, "level2_ops": 0, "skipped_budget": 0, "atoms": n}
    nontriv = 0
    for r in parallel(level1, tasks, chk.jobs):
        stats["level1_ops"] += r["n"]
        stats["skipped_budget"] += r["skipped"]
        nontriv += r["nontriv"]
        for f in r["fails"]:
            chk.fail(*f)
        for s in r["samples"]:
            chk.sample(s)
        for k in r["keys"]:
            keys[k] = True
    groups = sorted([k for k in keys if k[0] in ("EqualityMarkerUnion", "InequalityMultiMarker")], key=repr)
    compounds = sorted([k for k in keys if k[0] in ("MultiMarker", "MarkerUnion")], key=repr)
    atom_keys = [dom.key(a) for _, a in atoms]
    rnd = random.Random(chk.seed)
    if budget2 is None:
        budget2 = 5000 if tier == "quick" else 60000
    pairs = []
    # (a) exhaustive: atom groups x same-variable atoms / groups, both orders, both operators
    for kg in groups:
        for ka in atom_keys:
            if ka[1] == kg[1]:
                for opn in ("&", "|"):
                    pairs.append((kg, ka, opn))
                    pairs.append((ka, kg, opn))
        for kh in groups:
            if kh[1] == kg[1]:
                for opn in ("&", "|"):
                    pairs.append((kg, kh, opn))
    stats["level2_exhaustive_group_pairs"] = len(pairs)
    # (b) seeded sample: compound x atom (both orders), compound x compound, compound x group
    if compounds:
        others = atom_keys + groups
        for i in range(budget2):
            kc = compounds[rnd.randrange(len(compounds))]
            sel = i % 4
            if sel in (0, 1):
                ko = others[rnd.randrange(len(others))]
                pair = (kc, ko) if sel == 0 else (ko, kc)
            else:
                pair = (kc, compounds[rnd.randrange(len(compounds))])
            pairs.append(pair + (("&", "|")[(i // 4) % 2],))
    # (c) structured family: (x & y) | (x & z) and (x | y) & (x | z) with y, z on one variable and x on another
    fam = []
    by_var = {}
    for ka in atom_keys:
        by_var.setdefault(ka[1], []).append(ka)
    for var, ys in by_var.items():
        xs = [ka for ka in atom_keys if ka[1] != var and not (ka[1].startswith("python") and var.startswith("python"))]
        for y in ys:
            for z in ys:
                if y != z:
                    for x in xs:
                        fam.append((x, y, z))
    rnd.shuffle(fam)
    nfam = 1600 if tier == "quick" else 40000
    stats["level2_shared_child_family"] = min(nfam, len(fam))
    stats["level2_shared_child_family_space"] = len(fam)
    for i, (x, y, z) in enumerate(fam[:nfam]):
        sel = i % 4
        if sel == 0:
            pairs.append((("MultiMarker", x, y), ("MultiMarker", x, z), "|"))
        elif sel == 1:
            pairs.append((("MarkerUnion", x, y), ("MarkerUnion", x, z), "&"))
        elif sel == 2:
            pairs.append((("MarkerUnion", x, y), ("MarkerUnion", x, z), "|"))     # same-kind: shared member must not be duplicated
        else:
            pairs.append((("MultiMarker", x, y), ("MultiMarker", x, z), "&"))
    # (e) mixed compounds sharing one member: (x&y | p) | (p | z&w) and the dual — where the un-normalised candidate of union() can be
    #     the least complex one, so duplicates must be removed by the constructors' flattening
    nmix = 500 if tier == "quick" else 8000
    vars_ = list(by_var)
    for i in range(nmix):
        var = vars_[rnd.randrange(len(vars_))]
        if len(by_var[var]) < 2:
            continue
        y, z = rnd.sample(by_var[var], 2)
        rest = [k for k in atom_keys if k[1] != var and not (k[1].startswith("python") and var.startswith("python"))]
        if len(rest) < 3:
            continue
        x, w, pp = rnd.sample(rest, 3)
        if i % 2 == 0:
            pairs.append((("MarkerUnion", ("MultiMarker", x, y), pp), ("MarkerUnion", pp, ("MultiMarker", z, w)), "|"))
        else:
            pairs.append((("MultiMarker", ("MarkerUnion", x, y), pp), ("MultiMarker", pp, ("MarkerUnion", z, w)), "&"))
    stats["level2_mixed_shared_member_family"] = nmix
    # (f) the universal / empty marker as an operand of compounds (they reach compounds through only()/exclude() and through merges)
    picked = list(compounds)
    rnd.shuffle(picked)
    for kc in picked[: (120 if tier == "quick" else 2000)]:
        for special in (("AnyMarker",), ("EmptyMarker",)):
            for opn in ("&", "|"):
                pairs.append((kc, special, opn))
                pairs.append((special, kc, opn))
    # (h) an == group and the != group over the same variable and values (they hash alike, compare unequal) as children of two compounds
    for kg in groups:
        twin = ("InequalityMultiMarker" if kg[0] == "EqualityMarkerUnion" else "EqualityMarkerUnion", kg[1], kg[2])
        rest = [k for k in atom_keys if k[1] != kg[1] and not k[4]]
        if len(rest) < 2:
            continue
        for _ in range(2 if tier == "quick" else 6):
            x, y = rnd.sample(rest, 2)
            for kind in ("MultiMarker", "MarkerUnion"):
                for opn in ("&", "|"):
                    pairs.append(((kind, kg, x), (kind, twin, y), opn))
    # (g) same-kind compounds where one's members are a strict subset of the other's: absorption must go the right way
    nsub = 400 if tier == "quick" else 6000
    diff_var = [k for k in atom_keys if not k[4]]
    for i in range(nsub):
        x, y, z = rnd.sample(diff_var, 3)
        if len({x[1], y[1], z[1]}) < 3 or sum(1 for k in (x, y, z) if k[1].startswith("python")) > 1:
            continue
        kind = ("MarkerUnion", "MultiMarker")[i % 2]
        big, small = (kind, x, y, z), (kind, x, y)
        opn = ("|", "&")[(i // 2) % 2]
        pairs.append((big, small, opn))
        pairs.append((small, big, opn))
    # (d) operands that only the PARSER produces (it calls MarkerUnion.of directly; `|` goes through cnf/dnf): `x and y or z` texts
    texts = []
    atom_texts = [_show_key(k) for k in atom_keys if not k[4]]
    for i in range(300 if tier == "quick" else 4000):
        x, y, z, w = rnd.sample(atom_texts, 4)
        # first the shapes with two conjunctions (they are the ones for which union()'s un-normalised candidate can be the least complex)
        texts.append(f"{x} and {y} or {z} and {w}" if i % 3 == 0 else f"{x} and {y} or {z}")
    stats["level2_parsed_text_operands"] = len(texts)
    for i, t in enumerate(texts):
        other = atom_keys[rnd.randrange(len(atom_keys))] if i % 3 else ("TEXT", texts[rnd.randrange(len(texts))])
        pairs.append((("TEXT", t), other, ("&", "|")[i % 2]))
        if i < (40 if tier == "quick" else 400):
            for special in (("AnyMarker",), ("EmptyMarker",)):
                for opn in ("&", "|"):
                    pairs.append((("TEXT", t), special, opn))
                    pairs.append((special, ("TEXT", t), opn))
    space = [0] * (len(compounds) * (len(atom_keys) + len(groups)) * 2)
    cc = [0] * 0
    stats["level2_space_compound_pairs"] = len(compounds) ** 2 * 2 + len(space) * 2
    stats["level1_distinct_results"] = len(keys)
    stats["level1_compounds"] = len(compounds)
    del space, cc
    per = max(1, (len(pairs) + chk.jobs * 3 - 1) // (chk.jobs * 3))
    tasks2 = [(src, tier, pairs[i:i + per], judge_name) for i in range(0, len(pairs), per)]
    keys2 = {}
    for r in parallel(level2, tasks2, chk.jobs):
        stats["level2_ops"] += r["n"]
        stats["skipped_budget"] += r["skipped"]
        nontriv += r["nontriv"]
        for f in r["fails"]:
            chk.fail(*f)
        for s in r["samples"]:
            chk.sample(s)
        for k in r["keys"]:
            keys2[k] = True
    stats["nontrivial"] = nontriv
    if want_keys:
        allk = dict(keys)
        for _, a in atoms:
            allk[dom.key(a)] = True
        allk.update(keys2)
        stats["keys"] = allk
    return stats


# ------------------------------------------------------------------------------------------------ phase U
_UFUNCS = {}


def register_u(name, fn):
    _UFUNCS[name] = fn


def _phase_u(task):
    src, tier, keys, fname = task
    dom = domain(src)
    fn = _UFUNCS[fname]
    J = Judge()
    for k in keys:
        try:
            m = rebuild(dom, k)
        except PyRaise as e:
            J.fail("R-ctor", f"{k[0]}.__init__", f"constructing a marker of kind {k[0]} raises {e.exc!r}")
            continue
        try:
            fn(dom, J, m)
        except Undefined:
            J.skipped += 1
        except AnalysisError as e:
            if "step budget" in str(e):
                J.skipped += 1
            else:
                raise
    return {"fails": J.fails, "n": J.n, "nontriv": J.nontriv, "skipped": J.skipped, "samples": J.samples}


def collect_universe(chk, limit=None, budget2=None):
    """distinct level-0/1/2 results (keys), through the 'collect' judge (no judgement)."""
    if budget2 is None:
        budget2 = 1500 if chk.tier == "quick" else 20000
    stats = explore(chk, "collect", budget2=budget2, want_keys=True)
    keys = stats.pop("keys")
    keys[("AnyMarker",)] = True
    keys[("EmptyMarker",)] = True
    allk = sorted(keys, key=repr)
    simple = [k for k in allk if k[0] not in ("MultiMarker", "MarkerUnion")]
    comp = [k for k in allk if k[0] in ("MultiMarker", "MarkerUnion")]

    def nested(k):
        return any(isinstance(c, tuple) and c and c[0] in ("MultiMarker", "MarkerUnion", "EqualityMarkerUnion", "InequalityMultiMarker")
                   for c in k[1:])
    def has_special(k):
        return any(isinstance(c, tuple) and c and (c[0] in ("AnyMarker", "EmptyMarker") or (c[0] in ("MultiMarker", "MarkerUnion") and has_special(c)))
                   for c in k[1:])
    special = [k for k in comp if has_special(k)]
    comp = [k for k in comp if not has_special(k)]

    def names(k):
        if k[0] in ("MultiMarker", "MarkerUnion"):
            return set().union(*[names(c) for c in k[1:] if isinstance(c, tuple)]) if len(k) > 1 else set()
        return {k[1]} if len(k) > 1 and isinstance(k[1], str) and k[0] not in ("TEXT",) else set()

    def natoms(k):
        return sum(natoms(c) for c in k[1:] if isinstance(c, tuple)) if k[0] in ("MultiMarker", "MarkerUnion") else 1

    def sharing(k):
        """a nested compound child that mentions several variables, one of which also occurs in a sibling: the shape on which
        variable elimination must look below the first level (taken exhaustively, smallest first — not left to the sample)"""
        kids = [c for c in k[1:] if isinstance(c, tuple)]
        for i, c in enumerate(kids):
            if c[0] in ("MultiMarker", "MarkerUnion") and len(names(c)) > 1:
                if any(i != j and names(d) & names(c) for j, d in enumerate(kids)):
                    return True
        return False
    shared = sorted((k for k in comp if sharing(k)), key=lambda k: (natoms(k), repr(k)))
    if limit is not None:
        shared = shared[: max(200, limit // 3)]
    sset = set(shared)
    comp = [k for k in comp if k not in sset]
    special = special + shared
    if limit is not None:
        limit = max(0, limit - len(shared))
    deep = [k for k in comp if nested(k)]
    flat = [k for k in comp if not nested(k)]
    rnd = random.Random(chk.seed)
    rnd.shuffle(deep)
    rnd.shuffle(flat)
    if limit is not None:
        half = limit // 2
        deep_take = deep[: max(half, limit - len(flat))]
        flat_take = flat[: limit - len(deep_take)]
        comp = deep_take + flat_take
    return simple + special + comp, len(allk)


register("collect", lambda dom, J, opn, a, b, kind, r: None)


def phase_u(chk, keys, fname):
    src = str(chk.src)
    per = max(1, (len(keys) + chk.jobs * 3 - 1) // (chk.jobs * 3))
    tasks = [(src, chk.tier, keys[i:i + per], fname) for i in range(0, len(keys), per)]
    stats = {"n": 0, "skipped": 0, "nontriv": 0}
    for r in parallel(_phase_u, tasks, chk.jobs):
        stats["n"] += r["n"]
        stats["skipped"] += r["skipped"]
        stats["nontriv"] += r["nontriv"]
        for f in r["fails"]:
            chk.fail(*f)
        for s in r["samples"]:
            chk.sample(s)
    return stats
