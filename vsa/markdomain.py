"""Marker domain for ABSINT (C02, C07, C12, C13, C15; DESIGN.md §4): the repository's marker classes are
interpreted from source; `packaging` is replaced by the PEP 440 model of vsa/pkgmodel.py.

Oracle side (independent of the code under analysis):
  * OAtom(name, op, value, literal_left): PEP 508 meaning of one comparison.
  * environments: product of candidate values per variable; a marker's *denotation* is a bitmask over them,
    computed structurally from the result object (MultiMarker = all, MarkerUnion = any, EqualityMarkerUnion =
    value in set, InequalityMultiMarker = value not in set, Any = all ones, Empty = zero).
  * an own recursive-descent parser of the PEP 508 marker grammar (and binds tighter than or) for rendered text.
"""
from __future__ import annotations

import ast
import itertools
import re

from .absint import AObj, AnalysisError, Bound, BuiltinExcValue, EXC, Interp, MISSING, PyRaise, Sym
from . import pkgmodel
from .strdomain import SEM

AND, OR = ast.BitAnd(), ast.BitOr()
VERSION_VARS = ("python_version", "python_full_version", "platform_release")
REFLECT = {"<": ">", "<=": ">=", ">": "<", ">=": "<=", "==": "==", "!=": "!=", "===": "===", "~=": "~=",
           "in": "in", "not in": "not in"}


def normalize_name(n):
    return re.sub(r"[-_.]+", "-", n).lower()


class Undefined(Exception):
    pass


def atom_truth(name, op, value, literal_left, envval):
    """PEP 508 meaning of `name op "value"` (or `"value" op name` when literal_left) in an environment value."""
    if name == "extra":
        ex = envval if isinstance(envval, (set, frozenset)) else {envval}
        ex = {normalize_name(v) for v in ex}
        v = normalize_name(value)
        if op == "==":
            return v in ex
        if op == "!=":
            return v not in ex
        raise Undefined()
    if name in ("extras", "dependency_groups"):
        # PEP 751 set-valued variables: only `"name" in extras` / `"name" not in extras` are defined (normalised names)
        if not literal_left or op not in ("in", "not in"):
            raise Undefined()
        vals = {normalize_name(v) for v in (envval if isinstance(envval, (set, frozenset)) else {envval})}
        hit = normalize_name(value) in vals
        return hit if op == "in" else not hit
    lhs, rhs = (value, envval) if literal_left else (envval, value)
    if op not in ("in", "not in"):
        try:
            spec = pkgmodel.SpecifierVal(f"{op}{rhs}")
        except PyRaise:
            spec = None
        if spec is not None:
            try:
                return spec.sym_contains(lhs)
            except PyRaise:
                pass
    if op not in SEM:
        raise Undefined()
    return SEM[op](lhs, rhs)


class Envs:
    """product of candidate values per variable; index <-> assignment."""

    def __init__(self, cands):
        self.names = list(cands)
        self.cands = cands
        self.envs = []
        for combo in itertools.product(*[cands[n] for n in self.names]):
            e = dict(zip(self.names, combo))
            if "python_full_version" in e and "python_version" in self.names:
                pass
            self.envs.append(e)
        self.n = len(self.envs)
        self.full = (1 << self.n) - 1
        self._cache = {}

    def mask(self, name, op, value, literal_left):
        key = (name, op, value, literal_left)
        m = self._cache.get(key)
        if m is None:
            m = 0
            for i, e in enumerate(self.envs):
                if atom_truth(name, op, value, literal_left, e[name]):
                    m |= 1 << i
            self._cache[key] = m
        return m

    def describe(self, i):
        return {k: (sorted(v) if isinstance(v, (set, frozenset)) else v) for k, v in self.envs[i].items()}


def py_envs(fulls):
    """python_full_version candidates with python_version = major.minor (the coupling C02 assumes)."""
    out = []
    for f in fulls:
        parts = f.split(".")
        out.append((f, ".".join(parts[:2])))
    return out


class MarkerDomain:
    def __init__(self, src, cands, couple_python=True):
        self.it = it = Interp(src)
        pkgmodel.install(it)
        it.max_steps = None
        it.opaque_calls["Marker"] = PkgMarker
        try:
            self.single = it.module("dep_logic.markers.single")
            self.multi = it.module("dep_logic.markers.multi")
            self.union = it.module("dep_logic.markers.union")
            self.anym = it.module("dep_logic.markers.any")
            self.emptym = it.module("dep_logic.markers.empty")
            self.utils = it.module("dep_logic.utils")
        except (OSError, SyntaxError) as e:
            raise AnalysisError(f"cannot load marker modules: {e}")

        def need(mod, name):
            if name not in mod.ns:
                raise AnalysisError(f"anchor {mod.name}:{name} missing")
            return it.resolve(mod.ns[name])
        self.ME = need(self.single, "MarkerExpression")
        self.EQ = need(self.single, "EqualityMarkerUnion")
        self.NE = need(self.single, "InequalityMultiMarker")
        self.Single = need(self.single, "SingleMarker")
        self.MM = need(self.multi, "MultiMarker")
        self.MU = need(self.union, "MarkerUnion")
        self.Any = need(self.anym, "AnyMarker")
        self.Empty = need(self.emptym, "EmptyMarker")
        # environments
        cands = dict(cands)
        if couple_python and "python_full_version" in cands:
            pairs = py_envs(cands.pop("python_full_version"))
            cands.pop("python_version", None)
            cands["__py__"] = pairs
        self.envs = Envs(cands)
        if "__py__" in cands:
            for e in self.envs.envs:
                f, v = e.pop("__py__")
                e["python_full_version"], e["python_version"] = f, v
            self.envs.names = list(self.envs.envs[0].keys())
        self.envs._cache.clear()

    # ---------------------------------------------------------------- construction
    def atom(self, name, op, value, literal_left=False):
        """as markers/__init__._build_markers stores it: literal-left atoms keep the *reflected* operator."""
        if literal_left:
            return self.it.construct(self.ME, [name, REFLECT[op], value, True], {})
        return self.it.construct(self.ME, [name, op, value, False], {})

    def any(self):
        return self.it.construct(self.Any, [], {})

    def empty(self):
        return self.it.construct(self.Empty, [], {})

    def apply(self, opn, a, b, budget=None):
        it = self.it
        it.trace.clear()
        if budget:
            it.steps = 0
            it.max_steps = budget
        try:
            r = it.binop(AND if opn == "&" else OR, a, b)
        except PyRaise as e:
            return "raise", e.exc
        finally:
            it.max_steps = None
        return "ok", r

    def call(self, obj, name, *args, budget=None):
        it = self.it
        f, _ = obj.cls.lookup(name)
        if f is MISSING:
            raise PyRaise(BuiltinExcValue(EXC["AttributeError"], (name,)))
        if budget:
            it.steps = 0
            it.max_steps = budget
        try:
            return it.call(Bound(f, obj), list(args), {})
        finally:
            it.max_steps = None

    def path(self, k=10):
        return [f"{fn.split(':')[-1]}@L{ln}={'T' if c is True else 'F' if c is False else c}" for fn, ln, c in self.it.trace[-k:]]

    def blame(self, default):
        return self.it.trace[-1][0] if self.it.trace else default

    # ---------------------------------------------------------------- oracle: denotation of a result object
    def den(self, m):
        if not isinstance(m, AObj):
            raise AnalysisError(f"marker result is not an object: {m!r}")
        c = m.cls
        E = self.envs
        if c is self.Any:
            return E.full
        if c is self.Empty:
            return 0
        if c is self.ME:
            name, op, value, rev = m.f["name"], m.f["op"], m.f["value"], m.f.get("reversed", False)
            if rev:
                return E.mask(name, REFLECT.get(op, op), value, True)
            return E.mask(name, op, value, False)
        if c is self.EQ or c is self.NE:
            name = m.f["name"]
            vals = list(self.it.iterate(m.f["values"]))
            acc = 0
            for v in vals:
                acc |= E.mask(name, "==", v, False)
            return acc if c is self.EQ else (E.full & ~acc)
        if c is self.MM:
            acc = E.full
            for ch in m.f["markers"]:
                acc &= self.den(ch)
            return acc
        if c is self.MU:
            acc = 0
            for ch in m.f["markers"]:
                acc |= self.den(ch)
            return acc
        raise AnalysisError(f"unexpected marker class {c.name}")

    def names(self, m):
        c = m.cls
        if c in (self.Any, self.Empty):
            return set()
        if c in (self.ME, self.EQ, self.NE):
            return {m.f["name"]}
        out = set()
        for ch in m.f["markers"]:
            out |= self.names(ch)
        return out

    def size(self, m):
        if m.cls in (self.MM, self.MU):
            return sum(self.size(c) for c in m.f["markers"])
        return 1

    def normal_form(self, m, top=True):
        """C15: empty | universal | single atom/group | compound with >= 2 distinct children, none of them
        empty/universal/same-kind compound.  Returns None or the reason."""
        c = m.cls
        if c in (self.Any, self.Empty, self.ME):
            return None
        if c in (self.EQ, self.NE):
            vals = list(self.it.iterate(m.f["values"]))
            if len(vals) < 2:
                return f"{c.name} with {len(vals)} value(s)"
            if len(set(vals)) != len(vals):
                return f"{c.name} with duplicate values"
            return None
        if c in (self.MM, self.MU):
            ch = m.f["markers"]
            if not isinstance(ch, tuple):
                return "children not a tuple"
            if len(ch) < 2:
                return f"{c.name} with {len(ch)} child(ren)"
            for i, x in enumerate(ch):
                if not isinstance(x, AObj):
                    return "non-marker child"
                if x.cls in (self.Any, self.Empty):
                    return f"{x.cls.name} inside {c.name}"
                if x.cls is c:
                    return f"{c.name} nested in {c.name}"
                for y in ch[:i]:
                    if self.it.py_eq(x, y):
                        return f"duplicate child in {c.name}"
                r = self.normal_form(x, False)
                if r:
                    return r
            return None
        return f"unexpected class {c.name}"

    def show(self, m):
        c = m.cls
        if c is self.Any:
            return "<any>"
        if c is self.Empty:
            return "<empty>"
        if c is self.ME:
            if m.f.get("reversed"):
                return f'"{m.f["value"]}" {REFLECT.get(m.f["op"], m.f["op"])} {m.f["name"]}'
            return f'{m.f["name"]} {m.f["op"]} "{m.f["value"]}"'
        if c is self.EQ:
            return "EQ(" + m.f["name"] + " in " + repr(list(self.it.iterate(m.f["values"]))) + ")"
        if c is self.NE:
            return "NE(" + m.f["name"] + " not in " + repr(list(self.it.iterate(m.f["values"]))) + ")"
        if c is self.MM:
            return "AND[" + ", ".join(self.show(x) for x in m.f["markers"]) + "]"
        if c is self.MU:
            return "OR[" + ", ".join(self.show(x) for x in m.f["markers"]) + "]"
        return repr(m)

    def key(self, m):
        """structural key (kind, fields) — used only to de-duplicate operands."""
        c = m.cls
        if c in (self.Any, self.Empty):
            return (c.name,)
        if c is self.ME:
            return ("ME", m.f["name"], m.f["op"], m.f["value"], bool(m.f.get("reversed")))
        if c in (self.EQ, self.NE):
            return (c.name, m.f["name"], tuple(self.it.iterate(m.f["values"])))
        return (c.name,) + tuple(self.key(x) for x in m.f["markers"])

    # ---------------------------------------------------------------- observers through the interpreted code
    def evaluate(self, m, env):
        f, _ = m.cls.lookup("evaluate")
        return self.it.truth(self.it.call(Bound(f, m), [dict(env)], {}))

    def observed_mask(self, m):
        acc = 0
        for i, e in enumerate(self.envs.envs):
            if self.evaluate(m, e):
                acc |= 1 << i
        return acc

    def to_text(self, m):
        return self.it.to_str(m)

    def parse(self, text, budget=None):
        """the code's own parse_marker(text), interpreted (packaging's parser replaced by the own PEP 508 grammar)."""
        it = self.it
        mod = it.module("dep_logic.markers")
        if "parse_marker" not in mod.ns:
            raise AnalysisError("anchor dep_logic.markers:parse_marker missing")
        if budget:
            it.steps = 0
            it.max_steps = budget
        try:
            return it.call(mod.ns["parse_marker"], [text], {})
        finally:
            it.max_steps = None

    def first_diff(self, a, b):
        d = a ^ b
        i = (d & -d).bit_length() - 1
        return self.envs.describe(i)


# -------------------------------------------------------------------- PEP 508 text -> meaning (own grammar)
_TOK = re.compile(r"""\s*(?:(?P<lp>\()|(?P<rp>\))|(?P<str>"[^"]*"|'[^']*')|(?P<op><=|>=|==|!=|~=|===|<|>|not\s+in\b|in\b)
                      |(?P<bool>and\b|or\b)|(?P<name>[A-Za-z_][A-Za-z0-9_.]*))""", re.VERBOSE)


class MarkerTextError(Exception):
    pass


def parse_marker_text(text):
    """-> tree: ("atom", name, op, value, literal_left) | ("and", [..]) | ("or", [..])"""
    toks, pos = [], 0
    text = text.strip()
    while pos < len(text):
        m = _TOK.match(text, pos)
        if not m or m.end() == pos:
            raise MarkerTextError(f"cannot tokenise at {pos}: {text[pos:pos+20]!r}")
        pos = m.end()
        kind = m.lastgroup
        val = m.group(kind)
        if kind == "op":
            val = re.sub(r"\s+", " ", val)
        toks.append((kind, val))
    i = 0

    def peek():
        return toks[i] if i < len(toks) else (None, None)

    def eat(kind=None, val=None):
        nonlocal i
        k, v = peek()
        if k is None or (kind and k != kind) or (val and v != val):
            raise MarkerTextError(f"unexpected token {v!r} (wanted {kind or val})")
        i += 1
        return v

    def primary():
        k, v = peek()
        if k == "lp":
            eat("lp")
            t = or_expr()
            eat("rp")
            return t
        if k == "str":
            lit = eat("str")[1:-1]
            op = eat("op")
            name = eat("name")
            return ("atom", name, op, lit, True)
        if k == "name":
            name = eat("name")
            op = eat("op")
            kk, vv = peek()
            if kk != "str":
                raise MarkerTextError("comparison of two variables / missing literal")
            lit = eat("str")[1:-1]
            return ("atom", name, op, lit, False)
        raise MarkerTextError(f"unexpected token {v!r}")

    def and_expr():
        items = [primary()]
        while peek() == ("bool", "and"):
            eat("bool")
            items.append(primary())
        return items[0] if len(items) == 1 else ("and", items)

    def or_expr():
        items = [and_expr()]
        while peek() == ("bool", "or"):
            eat("bool")
            items.append(and_expr())
        return items[0] if len(items) == 1 else ("or", items)

    t = or_expr()
    if i != len(toks):
        raise MarkerTextError(f"trailing tokens from {toks[i][1]!r}")
    return t


class PkgNode:
    """packaging.markers.Variable / Value / Op stand-in (str() and isinstance only)."""

    def __init__(self, kind, text):
        self.ext_class = f"packaging.markers.{kind}"
        self.text = text

    def __str__(self):
        return self.text

    def __repr__(self):
        return f"{self.ext_class.split('.')[-1]}({self.text!r})"


def to_pkg_markers(tree):
    """own parse tree -> the nested list structure packaging's Marker._markers documents."""
    def conv(t, top=False):
        if t[0] == "atom":
            _, name, op, value, ll = t
            a = (PkgNode("Value", value), PkgNode("Op", op), PkgNode("Variable", name)) if ll else \
                (PkgNode("Variable", name), PkgNode("Op", op), PkgNode("Value", value))
            return a
        word = t[0]
        out = []
        for i, x in enumerate(t[1]):
            if i:
                out.append(word)
            c = conv(x)
            out.append(c)
        return out
    r = conv(tree)
    return [r] if isinstance(r, tuple) else r


class PkgMarker(Sym):
    def __init__(self, text):
        try:
            self.tree = parse_marker_text(text)
        except MarkerTextError as e:
            raise PyRaise(BuiltinExcValue(EXC["ValueError"], (str(e),)))
        self.sym__markers = to_pkg_markers(self.tree)


def tree_mask(envs, t):
    if t[0] == "atom":
        _, name, op, value, ll = t
        if name not in envs.names and not (name in ("python_version", "python_full_version") and "python_full_version" in envs.envs[0]):
            raise MarkerTextError(f"unknown variable {name}")
        return envs.mask(name, op, value, ll)
    if t[0] == "and":
        acc = envs.full
        for x in t[1]:
            acc &= tree_mask(envs, x)
        return acc
    acc = 0
    for x in t[1]:
        acc |= tree_mask(envs, x)
    return acc
