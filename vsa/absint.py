"""ABSINT — path-recording abstract interpreter / partial evaluator over the AST of /repo's source
(DESIGN.md §2.3).  It never imports or executes dep_logic or packaging: every value is an abstract
value of this module (AObj instances of ClassInfo built from ClassDef nodes, opaque VTok version tokens,
Sym symbolic values with an operation whitelist, plain Python constants for str/int/bool/list/tuple/dict).
Unsupported constructs raise AnalysisError (=> exit 2, fail closed)."""
from __future__ import annotations

import ast
import collections
import itertools
import pathlib
import sys


class AnalysisError(Exception):
    pass


class PyRaise(Exception):
    def __init__(self, exc):
        self.exc = exc


class _Return(Exception):
    def __init__(self, value, lineno=None):
        self.value = value
        self.lineno = lineno


class _Break(Exception):
    pass


class _Continue(Exception):
    pass


MISSING = object()


class VTok:
    """Opaque, order-only version token."""

    __slots__ = ("rank",)

    def __init__(self, rank):
        self.rank = rank

    def __repr__(self):
        return f"v{self.rank}"

    def __hash__(self):
        return hash(("VTok", self.rank))

    def __eq__(self, o):
        return isinstance(o, VTok) and o.rank == self.rank


class Sym:
    """Opaque symbolic value with a whitelist of python-level operations (methods named sym_*)."""


class SymBool(Sym):
    def __init__(self, label):
        self.label = label

    def __repr__(self):
        return f"?{self.label}"


class External:
    """Opaque external class / object (abc.ABCMeta, ValueError, Enum...)."""

    def __init__(self, name, bases=()):
        self.name = name
        self.bases = bases

    def __repr__(self):
        return f"<ext {self.name}>"


EXC = {}
for _n, _b in [
    ("BaseException", None), ("Exception", "BaseException"), ("ValueError", "Exception"),
    ("TypeError", "Exception"), ("RuntimeError", "Exception"), ("NotImplementedError", "RuntimeError"),
    ("LookupError", "Exception"), ("KeyError", "LookupError"), ("IndexError", "LookupError"),
    ("AttributeError", "Exception"), ("AssertionError", "Exception"), ("StopIteration", "Exception"),
    ("ArithmeticError", "Exception"), ("ZeroDivisionError", "ArithmeticError"), ("OverflowError", "ArithmeticError"),
    ("UnicodeError", "ValueError"), ("OSError", "Exception"), ("ImportError", "Exception"), ("ModuleNotFoundError", "ImportError"),
    ("InvalidVersion", "ValueError"), ("PkgInvalidSpecifier", "ValueError"),
]:
    EXC[_n] = External(_n, (EXC[_b],) if _b else ())


class BuiltinExcValue:
    def __init__(self, cls, args):
        self.cls = cls
        self.args = args

    def __repr__(self):
        return f"{self.cls.name}{self.args}"


class ClassInfo:
    def __init__(self, name, module, node, bases, ns, dc):
        self.name = name
        self.module = module
        self.node = node
        self.bases = bases
        self.ns = ns
        self.dc = dc  # dataclass kwargs dict or None
        self.fields = []  # (name, default_node, compare, hash, init)
        self._mro = None

    def __repr__(self):
        return f"<class {self.name}>"

    @property
    def mro(self):
        if self._mro is None:
            seqs = [[self]]
            for b in self.bases:
                seqs.append(list(b.mro) if isinstance(b, ClassInfo) else [b])
            seqs.append(list(self.bases))
            out = []
            seqs = [s for s in seqs if s]
            while seqs:
                for s in seqs:
                    h = s[0]
                    if not any(h in t[1:] for t in seqs):
                        break
                else:
                    raise AnalysisError(f"MRO conflict for {self.name}")
                out.append(h)
                seqs = [[x for x in s if x is not h] for s in seqs]
                seqs = [s for s in seqs if s]
            self._mro = out
        return self._mro

    def lookup(self, name):
        for c in self.mro:
            if isinstance(c, ClassInfo) and name in c.ns:
                return c.ns[name], c
        return MISSING, None

    def all_fields(self):
        out = {}
        for c in reversed(self.mro):
            if isinstance(c, ClassInfo) and c.dc is not None:
                for f in c.fields:
                    out[f[0]] = f
        return list(out.values())

    def issub(self, other):
        return other in self.mro


class AObj:
    __slots__ = ("cls", "f", "memo", "site")

    def __init__(self, cls):
        self.cls = cls
        self.f = {}
        self.memo = {}
        self.site = None

    def __repr__(self):
        return f"{self.cls.name}({', '.join(f'{k}={v!r}' for k, v in self.f.items())})"


class Func:
    def __init__(self, node, module, closure, owner=None, kind="plain"):
        self.node = node
        self.module = module
        self.closure = closure
        self.owner = owner
        self.kind = kind  # plain | property | cached_property | classmethod | staticmethod

    @property
    def qualname(self):
        return (self.owner.name + "." if self.owner else "") + getattr(self.node, "name", "<lambda>")


class SuperProxy:
    """super() inside a method: attribute lookup continues after `owner` in the MRO of the instance's class"""

    def __init__(self, obj, owner):
        self.obj = obj
        self.owner = owner


class Bound:
    def __init__(self, func, self_):
        self.func = func
        self.self_ = self_


class AIter:
    def __init__(self, items):
        self.items = list(items)
        self.pos = 0

    def __iter__(self):
        return self

    def __next__(self):
        if self.pos >= len(self.items):
            raise StopIteration
        v = self.items[self.pos]
        self.pos += 1
        return v


class ASet:
    """Abstract built-in set: list-backed, membership through the *interpreted* __eq__ (py_eq).
    Iteration order is insertion order (one of the orders a real hash set may produce)."""

    def __init__(self, interp, items=()):
        self.it = interp
        self.items = []
        for x in items:
            self.add(x)

    def has(self, x):
        return any(self.it.py_eq(x, y) for y in self.items)

    def add(self, x):
        if not self.has(x):
            self.items.append(x)

    def __iter__(self):
        return iter(list(self.items))

    def __len__(self):
        return len(self.items)

    def __repr__(self):
        return "{" + ", ".join(map(repr, self.items)) + "}"


class Native:
    """Whitelisted pure stdlib object (compiled regex / match): constant folding of pure primitives."""
    ALLOWED = {"Pattern": ("search", "match", "fullmatch", "sub", "split", "findall", "pattern", "flags", "groups", "groupindex"),
               "Match": ("groups", "group", "groupdict", "start", "end", "span", "string", "lastindex", "lastgroup", "re", "pos", "endpos")}

    def __init__(self, obj):
        self.obj = obj

    def __repr__(self):
        return f"<native {self.obj!r}>"


def _native_re():
    import re as _re

    def wrap(v):
        if isinstance(v, (_re.Pattern, _re.Match)):
            return Native(v)
        if isinstance(v, tuple):
            return tuple(wrap(x) for x in v)
        return v

    def compile_(p, flags=0):
        return Native(_re.compile(p, flags))

    def sub(p, repl, s, count=0, flags=0):
        if not all(isinstance(x, str) for x in (p, s)) or not (isinstance(repl, str) or callable(repl)):
            raise AnalysisError("re.sub on non-text")
        if not isinstance(repl, str):
            return _re.sub(p, lambda mm: repl(Native(mm)), s, count, flags)
        return _re.sub(p, repl, s, count, flags)

    def mk(name):
        def f(p, s, flags=0):
            if not isinstance(p, str) or not isinstance(s, str):
                raise AnalysisError(f"re.{name} on non-text")
            return wrap(getattr(_re, name)(p, s, flags))
        return f
    d = {"compile": compile_, "sub": sub, "VERBOSE": _re.VERBOSE, "IGNORECASE": _re.IGNORECASE, "X": _re.X, "I": _re.I}
    for n in ("match", "search", "fullmatch", "findall", "split"):
        d[n] = mk(n)

    def finditer(p, s, flags=0):
        if not isinstance(p, str) or not isinstance(s, str):
            raise AnalysisError("re.finditer on non-text")
        return AIter(iter([Native(x) for x in _re.finditer(p, s, flags)]))
    d["finditer"] = finditer
    d["escape"] = _re.escape
    for n in ("M", "MULTILINE", "S", "DOTALL", "A", "ASCII"):
        d[n] = getattr(_re, n)
    return d, wrap


def _live(lst):
    """iterate a list the way CPython does: by index against the live list."""
    i = 0
    while i < len(lst):
        yield lst[i]
        i += 1


class AKeys(list):
    """dict.keys() view: ordered like a list, compares and combines like a set"""


class _Suppress:
    """contextlib.suppress(*excs)"""
    def __init__(self, excs):
        self.excs = excs


class _MemoWrap:
    """functools.lru_cache(...)(f) / functools.cache(f) applied as a call: f memoised by the interpreted __hash__/__eq__ of its arguments"""
    def __init__(self, f):
        self.f = f
        self.memo = {}


class _Partial:
    """functools.partial"""
    def __init__(self, f, args, kwargs):
        self.f, self.args, self.kwargs = f, list(args), dict(kwargs)


def _is_generator(node):
    """does this function body contain a yield of its own (not inside a nested def / lambda)?"""
    stack = list(node.body) if not isinstance(node, ast.Lambda) else []
    while stack:
        n = stack.pop()
        if isinstance(n, (ast.Yield, ast.YieldFrom)):
            return True
        if isinstance(n, (ast.FunctionDef, ast.AsyncFunctionDef, ast.Lambda, ast.ClassDef)):
            continue
        stack.extend(ast.iter_child_nodes(n))
    return False


class Module:
    def __init__(self, name, path):
        self.name = name
        self.path = path
        self.ns = {}
        self.loaded = False


class Env:
    __slots__ = ("vars", "parent", "is_comp", "nl", "gl")

    def __init__(self, parent=None):
        self.vars = {}
        self.parent = parent
        self.is_comp = False
        self.nl = None      # names declared nonlocal in this frame
        self.gl = None      # names declared global in this frame

    def get(self, name):
        e = self
        while e is not None:
            if name in e.vars:
                return e.vars[name]
            e = e.parent
        return MISSING


class Interp:
    def __init__(self, src_root, pkg="dep_logic"):
        self.root = pathlib.Path(src_root)
        self.pkg = pkg
        self.modules = {}
        self.trace = []
        self.last_return = None
        self.steps = 0
        self.opaque_calls = {}
        self.overrides = {}
        self.schedule = []
        self.decisions = []
        self.builtins = self._make_builtins()
        self._stubs = None
        self.fstack = []
        self.model_caches = True
        self.funcs_seen = set()
        self.max_steps = None

    def clear_caches(self):
        """forget every modelled functools cache (a cold library; used to isolate obligations from each other)"""
        for m in self.modules.values():
            for v in list(m.ns.values()):
                if isinstance(v, _MemoWrap):
                    v.memo.clear()
                elif isinstance(v, Func) and getattr(v, "memo", None) is not None:
                    v.memo.clear()
                elif isinstance(v, ClassInfo):
                    for w in v.ns.values():
                        if isinstance(w, Func) and getattr(w, "memo", None) is not None:
                            w.memo.clear()

    def run_forks(self, thunk):
        """Enumerate all outcomes of `thunk` over symbolic-boolean decisions (DFS over schedules)."""
        results = []
        self.schedule = []
        while True:
            self.decisions = []
            try:
                r = ("ok", thunk())
            except PyRaise as e:
                r = ("raise", e.exc)
            results.append((list(self.decisions), r))
            # next schedule: flip the last False to True, drop the tail
            sch = [d for _, d in self.decisions]
            while sch and sch[-1] is True:
                sch.pop()
            if not sch:
                break
            sch[-1] = True
            self.schedule = sch
        self.schedule = []
        return results

    # ------------------------------------------------------------------ modules
    def module(self, name):
        if name in self.modules:
            m = self.modules[name]
        else:
            rel = name.split(".")
            p = self.root.joinpath(*rel)
            path = p / "__init__.py" if p.is_dir() else p.with_suffix(".py")
            if not path.exists():
                raise AnalysisError(f"no module {name}")
            m = Module(name, path)
            self.modules[name] = m
        if not m.loaded:
            m.loaded = True
            tree = ast.parse(path.read_text() if not m.ns else m.path.read_text(), filename=str(m.path))
            m.tree = tree
            env = Env()
            env.vars = m.ns
            m.env = env
            for st in tree.body:
                self.exec_top(st, m)
        return m

    def ext_module(self, name, lazy=False):
        if self._stubs is None:
            self._stubs = self._make_stubs()
        if name in self._stubs:
            return self._stubs[name]
        if lazy:
            return {}
        raise AnalysisError(f"no stub for external module {name}")

    def _make_stubs(self):
        return {
            "typing": {"TYPE_CHECKING": False, "cast": ("builtin", "cast"), "Any": External("Any"),
                       "ClassVar": External("ClassVar"), "Protocol": External("Protocol"),
                       "TypeVar": lambda *a, **k: External("TypeVar"), "Union": External("Union"),
                       "Sequence": External("Sequence"), "Callable": External("Callable"),
                       "AbstractSet": External("AbstractSet"), "Iterable": External("Iterable"),
                       "Iterator": External("Iterator"), "Set": External("Set"), "Literal": External("Literal"), "NamedTuple": External("NamedTuple")},
            "abc": {"ABCMeta": External("ABCMeta"), "abstractmethod": ("deco", "abstractmethod"),
                    "ABC": External("ABC")},
            "dataclasses": {"dataclass": ("deco", "dataclass"), "field": ("builtin", "field"),
                            "replace": ("builtin", "dc_replace")},
            "functools": {"cached_property": ("deco", "cached_property"), "lru_cache": ("deco", "lru_cache"), "cache": ("deco", "lru_cache"),
                          "reduce": ("builtin", "reduce"), "partial": ("builtin", "partial"), "wraps": ("builtin", "wraps")},
            "collections": {"defaultdict": ("builtin", "defaultdict"), "deque": ("builtin", "deque"), "OrderedDict": ("builtin", "dict")},
            "collections.abc": {k: External(k) for k in ("Set", "Iterable", "Iterator", "Sequence", "Mapping", "MutableMapping", "Hashable",
                                                         "Callable", "Collection", "Sized", "Container", "MutableSet", "Generator")},
            "contextlib": {"suppress": ("builtin", "suppress")},
            "bisect": {"bisect_left": ("builtin", "bisect_left"), "bisect_right": ("builtin", "bisect_right"), "bisect": ("builtin", "bisect_right"),
                       "insort_left": ("builtin", "insort_left"), "insort_right": ("builtin", "insort_right"), "insort": ("builtin", "insort_right")},
            "copy": {"copy": ("builtin", "copy")},
            "types": {"MappingProxyType": ("builtin", "mappingproxy")},
            "warnings": {"warn": ("builtin", "noop")},
            "math": {"inf": float("inf"), "floor": __import__("math").floor, "ceil": __import__("math").ceil},
            "string": {k: getattr(__import__("string"), k) for k in ("digits", "ascii_letters", "ascii_lowercase", "ascii_uppercase", "hexdigits", "punctuation", "whitespace")},
            "itertools": {"product": ("builtin", "product"), "takewhile": ("builtin", "takewhile"), "permutations": ("builtin", "permutations"),
                          "combinations": ("builtin", "combinations"), "chain": ("builtin", "chain"), "islice": ("builtin", "islice"),
                          "zip_longest": ("builtin", "zip_longest"), "dropwhile": ("builtin", "dropwhile"), "groupby": ("builtin", "groupby"),
                          "accumulate": ("builtin", "accumulate"), "repeat": ("builtin", "repeat"), "starmap": ("builtin", "starmap"),
                          "pairwise": ("builtin", "pairwise"), "filterfalse": ("builtin", "filterfalse"), "compress": ("builtin", "compress")},
            "operator": {"and_": ("builtin", "and_"), "or_": ("builtin", "or_"), "eq": ("builtin", "op_eq"),
                         "ne": ("builtin", "op_ne"), "lt": ("builtin", "op_lt"), "le": ("builtin", "op_le"),
                         "gt": ("builtin", "op_gt"), "ge": ("builtin", "op_ge"), "itemgetter": ("builtin", "itemgetter"),
                         "attrgetter": ("builtin", "attrgetter"), "methodcaller": ("builtin", "methodcaller"), "getitem": ("builtin", "op_getitem"),
                         "add": ("builtin", "op_add"), "sub": ("builtin", "op_sub"), "mul": ("builtin", "op_mul"), "xor": ("builtin", "op_xor"),
                         "not_": ("builtin", "op_not"), "truth": ("builtin", "op_truth"), "contains": ("builtin", "op_contains"),
                         "is_": ("builtin", "op_is"), "is_not": ("builtin", "op_is_not")},
            "sys": {"version_info": (3, 12, 1), "maxsize": sys.maxsize},
            "enum": {"Enum": External("Enum"), "IntEnum": External("IntEnum"), "auto": External("auto")},
            "platform": {"python_implementation": External("python_implementation")},
            "struct": {}, "sysconfig": {},
            "re": dict(_native_re()[0], sub=self._re_sub),
            "packaging.markers": {"default_environment": External("default_environment"),
                                  "InvalidMarker": EXC["ValueError"], "Marker": External("Marker")},
            "packaging.version": {"Version": External("Version"), "InvalidVersion": EXC["InvalidVersion"]},
            "packaging.specifiers": {"SpecifierSet": External("SpecifierSet"), "Specifier": External("Specifier"),
                                     "InvalidSpecifier": EXC["PkgInvalidSpecifier"]},
        }

    def exec_top(self, st, m):
        if isinstance(st, (ast.Import,)):
            for a in st.names:
                if a.name.startswith(self.pkg):
                    raise AnalysisError("plain import of package module")
                m.ns[a.asname or a.name.split(".")[0]] = ("extmod", a.name)
        elif isinstance(st, ast.ImportFrom):
            self.do_importfrom(st, m, m.ns)
        elif isinstance(st, ast.ClassDef):
            m.ns[st.name] = self.make_class(st, m, m.env)
        elif isinstance(st, ast.FunctionDef):
            m.ns[st.name] = self.make_func(st, m, m.env, None)
        elif isinstance(st, (ast.Assign, ast.AnnAssign, ast.If, ast.Expr, ast.Delete, ast.Try, ast.For, ast.While, ast.With,
                             ast.AugAssign, ast.Assert, ast.Pass)):
            if isinstance(st, ast.Expr) and not isinstance(st.value, ast.Call):
                return  # docstrings and other value-less expression statements
            if isinstance(st, ast.Delete):
                return
            if isinstance(st, ast.Expr):
                # a call made for its side effect at import (filling a registry, patching a table): executed when it can be modelled,
                # otherwise skipped (whatever it would have set up fails closed when used)
                saved = self.steps
                try:
                    self.exec_stmt(st, m.env, m)
                except (AnalysisError, PyRaise, TypeError, AttributeError, KeyError, ValueError, IndexError):
                    pass
                return
            try:
                self.exec_stmt(st, m.env, m)
            except AnalysisError:
                pass  # unneeded module constants may be un-evaluable; they fail when used
            except PyRaise:
                if not isinstance(st, (ast.Try, ast.For, ast.While, ast.With, ast.AugAssign, ast.Assert, ast.Expr)):
                    raise
        else:
            raise AnalysisError(f"top-level {type(st).__name__} in {m.name}")

    def do_importfrom(self, st, m, ns):
        modname = st.module or ""
        if st.level:
            base = m.name.split(".")
            if not m.path.name == "__init__.py":
                base = base[:-1]
            base = base[: len(base) - (st.level - 1)]
            modname = ".".join(base + ([st.module] if st.module else []))
        if modname == "__future__":
            return
        if modname.startswith(self.pkg):
            for a in st.names:
                ns[a.asname or a.name] = ("lazy", modname, a.name)
        else:
            stub = self.ext_module(modname, lazy=True)
            for a in st.names:
                if a.name not in stub:
                    ns[a.asname or a.name] = External(f"{modname}.{a.name}")
                else:
                    ns[a.asname or a.name] = stub[a.name]

    def resolve(self, v):
        while isinstance(v, tuple) and v and v[0] == "lazy":
            _, modname, name = v
            try:
                mod = self.module(modname)
                if name in mod.ns:
                    v = mod.ns[name]
                else:
                    v = ("module", self.module(modname + "." + name))
            except AnalysisError:
                raise
        return v

    # ------------------------------------------------------------------ classes / functions
    def make_func(self, node, m, env, owner):
        kind = "plain"
        unknown = None
        memo = False
        for d in node.decorator_list:
            u = ast.unparse(d)
            if u == "property":
                kind = "property"
            elif u.endswith("cached_property"):
                kind = "cached_property"
            elif u == "classmethod":
                kind = "classmethod"
            elif u == "staticmethod":
                kind = "staticmethod"
            elif "lru_cache" in u or u.split("(")[0].split(".")[-1] == "cache":
                memo = True
            elif (u.endswith("abstractmethod") or u.endswith(".setter") or u.split("(")[0].split(".")[-1] in
                  ("overload", "final", "override", "no_type_check")):
                pass
            else:
                unknown = u
        f = Func(node, m, env, owner, kind)
        f.unknown_deco = unknown
        f.memo = {} if memo else None
        f.is_gen = _is_generator(node)
        if unknown is not None:
            # a decorator this model has no special meaning for: apply it the way Python does (f = deco(f)), e.g. a registry decorator
            # that records f in a module-level table at import and returns it
            try:
                val = f
                f.unknown_deco = None
                for d in reversed(node.decorator_list):
                    u = ast.unparse(d)
                    if (u in ("property", "classmethod", "staticmethod") or u.endswith("cached_property") or "lru_cache" in u
                            or u.split("(")[0].split(".")[-1] in ("cache", "overload", "final", "override", "no_type_check")
                            or u.endswith("abstractmethod") or u.endswith(".setter")):
                        continue
                    val = self.call(self.eval(d, env, m), [val], {})
                return val
            except (AnalysisError, PyRaise):
                f.unknown_deco = unknown
        return f

    def make_class(self, node, m, env):
        bases = []
        for b in node.bases:
            bv = self.eval(b.value if isinstance(b, ast.Subscript) else b, env, m)
            bv = self.resolve(bv)
            bases.append(bv)
        dc = None
        total = False
        generic_decos = []
        for d in node.decorator_list:
            u = ast.unparse(d)
            if "dataclass" in u:
                dc = {"eq": True, "frozen": False, "init": True}
                if isinstance(d, ast.Call):
                    for kw in d.keywords:
                        if kw.arg is None:
                            dc.update(self.eval(kw.value, env, m))
                        else:
                            dc[kw.arg] = self.eval(kw.value, env, m)
            elif u.split("(")[0].split(".")[-1] == "total_ordering":
                total = True
            elif u.split("(")[0].split(".")[-1] in ("final", "runtime_checkable"):
                pass
            else:
                generic_decos.append(d)
        if any(isinstance(b, External) and b.name == "NamedTuple" for b in bases):
            dc = {"eq": True, "frozen": True, "init": True, "order": True, "namedtuple": True}
        ci = ClassInfo(node.name, m, node, bases, {}, dc)
        ci.total_ordering = total
        ci.is_enum = any((isinstance(b, External) and b.name.endswith("Enum")) or getattr(b, "is_enum", False) for b in bases)
        ci.members = []
        cenv = Env(env)
        cenv.vars = ci.ns
        for st in node.body:
            if isinstance(st, ast.FunctionDef):
                ci.ns[st.name] = self.make_func(st, m, env, ci)
            elif isinstance(st, ast.AnnAssign):
                ann = ast.unparse(st.annotation)
                name = st.target.id
                if "ClassVar" in ann:
                    if st.value is not None:
                        ci.ns[name] = ("classvar_lazy", st.value, cenv)
                    continue
                default, compare, hash_, init, repr_ = MISSING, True, None, True, True
                if st.value is not None:
                    if isinstance(st.value, ast.Call) and ast.unparse(st.value.func) in ("field", "dataclasses.field"):
                        for kw in st.value.keywords:
                            if kw.arg == "default_factory":
                                default = ast.Call(func=kw.value, args=[], keywords=[])
                                ast.copy_location(default, kw.value)
                                ast.fix_missing_locations(default)
                                continue
                            val = self.eval(kw.value, env, m)
                            if kw.arg == "default":
                                default = st.value.keywords[[k.arg for k in st.value.keywords].index("default")].value
                            elif kw.arg == "repr":
                                repr_ = val
                            elif kw.arg == "compare":
                                compare = val
                            elif kw.arg == "hash":
                                hash_ = val
                            elif kw.arg == "init":
                                init = val
                    else:
                        default = st.value
                ci.fields.append((name, default, compare, hash_, init, repr_))
            elif isinstance(st, ast.Assign):
                val_node = st.value
                for t in st.targets:
                    if isinstance(t, ast.Name):
                        if isinstance(val_node, ast.Name) and val_node.id in ci.ns:
                            ci.ns[t.id] = ci.ns[val_node.id]
                        elif ci.is_enum:
                            mem = AObj(ci)
                            is_auto = isinstance(val_node, ast.Call) and ast.unparse(val_node.func) == "auto"
                            mem.f["value"] = len(ci.members) + 1 if is_auto else self.eval(val_node, env, m)
                            mem.f["name"] = t.id
                            mem.f["_value_"] = mem.f["value"]
                            ci.members.append(mem)
                            ci.ns[t.id] = mem
                        else:
                            ci.ns[t.id] = ("classvar_lazy", val_node, cenv)
            elif isinstance(st, ast.Expr) and isinstance(st.value, ast.Constant):
                pass
            elif isinstance(st, ast.Pass):
                pass
            else:
                raise AnalysisError(f"class body {type(st).__name__} in {node.name}")
        val = ci
        for d in reversed(generic_decos):
            # a class decorator without a special meaning here (e.g. one that registers the class in a module-level table): cls = deco(cls)
            val = self.call(self.eval(d, env, m), [val], {})
        return val

    # ------------------------------------------------------------------ statements
    def exec_block(self, stmts, env, m):
        for st in stmts:
            self.exec_stmt(st, env, m)

    def exec_stmt(self, st, env, m):
        self.steps += 1
        if self.max_steps is not None and self.steps > self.max_steps:
            raise AnalysisError(f"step budget exceeded at {m.name}:{st.lineno} (non-terminating slice?)")
        t = type(st)
        if t is ast.Return:
            raise _Return(self.eval(st.value, env, m) if st.value is not None else None, st.lineno)
        if t is ast.If:
            c = self.truth(self.eval(st.test, env, m))
            self.trace.append((self.fstack[-1] if self.fstack else m.name, st.lineno, c))
            self.exec_block(st.body if c else st.orelse, env, m)
            return
        if t is ast.Assign:
            v = self.eval(st.value, env, m)
            for tg in st.targets:
                self.assign(tg, v, env, m)
            return
        if t is ast.AnnAssign:
            if st.value is not None:
                self.assign(st.target, self.eval(st.value, env, m), env, m)
            return
        if t is ast.AugAssign:
            cur = self.eval(ast.Name(id=st.target.id, ctx=ast.Load()), env, m) if isinstance(st.target, ast.Name) else self.eval(st.target, env, m)
            rhs = self.eval(st.value, env, m)
            if isinstance(cur, list) and isinstance(st.op, ast.Add):
                cur.extend(self.iterate(rhs))        # list.__iadd__ mutates in place (aliases observe it)
                v = cur
            elif isinstance(cur, list) and isinstance(st.op, ast.Mult):
                cur[:] = cur * rhs
                v = cur
            elif isinstance(cur, (set, ASet)) and isinstance(st.op, (ast.BitOr, ast.BitAnd, ast.Sub)):
                res = self.binop(st.op, cur, rhs)
                if isinstance(cur, ASet):
                    cur.items = list(self.iterate(res))
                    v = cur
                else:
                    v = res
            else:
                v = self.binop(st.op, cur, rhs)
            self.assign(st.target, v, env, m)
            return
        if t is ast.Expr:
            self.eval(st.value, env, m)
            return
        if t is ast.For:
            itv = self.eval(st.iter, env, m)
            it = _live(itv) if isinstance(itv, list) else self.iterate(itv)
            broke = False
            for item in it:
                self.assign(st.target, item, env, m)
                try:
                    self.exec_block(st.body, env, m)
                except _Break:
                    broke = True
                    break
                except _Continue:
                    continue
            if not broke:
                self.exec_block(st.orelse, env, m)
            return
        if t is ast.While:
            n = 0
            broke = False
            while self.truth(self.eval(st.test, env, m)):
                n += 1
                if n > 10000:
                    raise AnalysisError("while bound")
                try:
                    self.exec_block(st.body, env, m)
                except _Break:
                    broke = True
                    break
                except _Continue:
                    continue
            if not broke:
                self.exec_block(st.orelse, env, m)
            return
        if t is ast.Break:
            raise _Break()
        if t is ast.Continue:
            raise _Continue()
        if t is ast.Pass:
            return
        if t is ast.Raise:
            exc = self.eval_exc(st.exc, env, m)
            if st.cause is not None:
                cause = self.eval(st.cause, env, m)
                if isinstance(exc, AObj):
                    exc.f["__cause__"] = cause
                elif isinstance(exc, BuiltinExcValue):
                    exc.cause = cause
            raise PyRaise(exc)
        if t is ast.Try:
            try:
                try:
                    self.exec_block(st.body, env, m)
                except PyRaise as pr:
                    for h in st.handlers:
                        if h.type is None or self.exc_match(pr.exc, self.resolve(self.eval(h.type, env, m))):
                            if h.name:
                                env.vars[h.name] = pr.exc
                            self.trace.append((self.fstack[-1] if self.fstack else m.name, h.lineno, "except"))
                            if not hasattr(self, "_cur_exc"):
                                self._cur_exc = []
                            self._cur_exc.append(pr.exc)
                            try:
                                self.exec_block(h.body, env, m)
                            finally:
                                self._cur_exc.pop()
                            break
                    else:
                        raise
                else:
                    self.exec_block(st.orelse, env, m)
            finally:
                if st.finalbody:
                    self.exec_block(st.finalbody, env, m)
            return
        if t is ast.Nonlocal:
            env.nl = (env.nl or set()) | set(st.names)
            return
        if t is ast.Global:
            env.gl = (env.gl or set()) | set(st.names)
            return
        if t is ast.FunctionDef:
            env.vars[st.name] = self.make_func(st, m, env, None)
            return
        if t is ast.ClassDef:
            env.vars[st.name] = self.make_class(st, m, env)
            return
        if t is ast.With:
            self.exec_with(st, 0, env, m)
            return
        if t is ast.Delete:
            for tg in st.targets:
                if isinstance(tg, ast.Name):
                    env.vars.pop(tg.id, None)
                elif isinstance(tg, ast.Subscript):
                    obj = self.eval(tg.value, env, m)
                    ix = self.eval(tg.slice, env, m)
                    if isinstance(obj, dict):
                        ix = self.dkey(obj, ix)
                    try:
                        del obj[ix]
                    except KeyError:
                        raise PyRaise(BuiltinExcValue(EXC["KeyError"], (ix,)))
                    except IndexError:
                        raise PyRaise(BuiltinExcValue(EXC["IndexError"], ()))
                else:
                    raise AnalysisError("del target")
            return
        if t is ast.ImportFrom:
            self.do_importfrom(st, m, env.vars)
            return
        if t is ast.Import:
            for a in st.names:
                env.vars[a.asname or a.name.split(".")[0]] = ("extmod", a.name)
            return
        if t is ast.Assert:
            if not self.truth(self.eval(st.test, env, m)):
                raise PyRaise(BuiltinExcValue(EXC["AssertionError"], ()))
            return
        raise AnalysisError(f"unsupported statement {t.__name__} at {m.name}:{st.lineno}")

    def exec_with(self, st, i, env, m):
        if i == len(st.items):
            self.exec_block(st.body, env, m)
            return
        item = st.items[i]
        cm = self.eval(item.context_expr, env, m)
        if isinstance(cm, _Suppress):
            try:
                if item.optional_vars is not None:
                    self.assign(item.optional_vars, None, env, m)
                self.exec_with(st, i + 1, env, m)
            except PyRaise as pr:
                if not any(self.exc_match(pr.exc, self.resolve(h)) for h in cm.excs):
                    raise
            return
        if not isinstance(cm, AObj):
            raise AnalysisError(f"with-statement over unmodelled context manager {cm!r} at {m.name}:{st.lineno}")
        en, _ = cm.cls.lookup("__enter__")
        ex, _ = cm.cls.lookup("__exit__")
        if en is MISSING or ex is MISSING:
            raise PyRaise(BuiltinExcValue(EXC["TypeError"], ("context manager protocol", cm.cls.name)))
        v = self.call(Bound(en, cm), [], {})
        if item.optional_vars is not None:
            self.assign(item.optional_vars, v, env, m)
        try:
            self.exec_with(st, i + 1, env, m)
        except PyRaise as pr:
            cls = pr.exc.cls if isinstance(pr.exc, (AObj, BuiltinExcValue)) else None
            if not self.truth(self.call(Bound(ex, cm), [cls, pr.exc, None], {})):
                raise
            return
        except (_Return, _Break, _Continue):
            self.call(Bound(ex, cm), [None, None, None], {})
            raise
        self.call(Bound(ex, cm), [None, None, None], {})

    def eval_exc(self, node, env, m):
        if node is None:
            cur = getattr(self, "_cur_exc", None)
            if not cur:
                return BuiltinExcValue(EXC["RuntimeError"], ("No active exception to reraise",))
            return cur[-1]
        try:
            v = self.resolve(self.eval(node, env, m))
        except AnalysisError as e:
            # building the MESSAGE may touch opaque values (str() of a version token ...): keep the class only — but never hide a
            # problem in the exception class's own constructor
            if isinstance(node, ast.Call) and any(k in str(e) for k in ("version token", "symbolic", "str() of")):
                v = self.resolve(self.eval(node.func, env, m))
            else:
                raise
        if isinstance(v, External):
            return BuiltinExcValue(v, ())
        if isinstance(v, ClassInfo):
            o = AObj(v)
            return o
        return v

    def exc_match(self, exc, handler):
        if isinstance(handler, tuple):
            return any(self.exc_match(exc, self.resolve(h)) for h in handler)
        if isinstance(exc, AObj):
            return handler in exc.cls.mro or any(
                self._ext_sub(b, handler) for b in exc.cls.mro if isinstance(b, External))
        if isinstance(exc, BuiltinExcValue):
            return self._ext_sub(exc.cls, handler)
        return False

    def _ext_sub(self, c, target):
        if c is target:
            return True
        return any(self._ext_sub(b, target) for b in getattr(c, "bases", ()))

    def assign(self, tg, v, env, m):
        if isinstance(tg, ast.Name):
            if env.gl and tg.id in env.gl:
                m.ns[tg.id] = v
                return
            if env.nl and tg.id in env.nl:
                e = env.parent
                while e is not None:
                    if tg.id in e.vars and e.vars is not m.ns:
                        e.vars[tg.id] = v
                        return
                    e = e.parent
                raise AnalysisError(f"nonlocal {tg.id} not found")
            env.vars[tg.id] = v
        elif isinstance(tg, (ast.Tuple, ast.List)):
            vals = list(self.iterate(v))
            star = [i for i, e in enumerate(tg.elts) if isinstance(e, ast.Starred)]
            if star:
                i = star[0]
                after = len(tg.elts) - i - 1
                if len(vals) < len(tg.elts) - 1:
                    raise PyRaise(BuiltinExcValue(EXC["ValueError"], ("unpack",)))
                for e, x in zip(tg.elts[:i], vals[:i]):
                    self.assign(e, x, env, m)
                self.assign(tg.elts[i].value, vals[i: len(vals) - after], env, m)
                for e, x in zip(tg.elts[i + 1:], vals[len(vals) - after:]):
                    self.assign(e, x, env, m)
            else:
                if len(vals) != len(tg.elts):
                    raise PyRaise(BuiltinExcValue(EXC["ValueError"], ("unpack",)))
                for e, x in zip(tg.elts, vals):
                    self.assign(e, x, env, m)
        elif isinstance(tg, ast.Attribute):
            obj = self.eval(tg.value, env, m)
            if isinstance(obj, AObj):
                if obj.cls.dc and obj.cls.dc.get("frozen"):
                    raise PyRaise(BuiltinExcValue(EXC["AttributeError"], ("frozen",)))
                obj.f[tg.attr] = v
            elif isinstance(self.resolve(obj), ClassInfo):
                self.resolve(obj).ns[tg.attr] = v
            else:
                raise AnalysisError("attribute store on non-object")
        elif isinstance(tg, ast.Subscript):
            obj = self.eval(tg.value, env, m)
            idx = self.eval(tg.slice, env, m)
            if isinstance(obj, dict):
                idx = self.dkey(obj, idx)
            elif not isinstance(obj, (list, AObj, collections.deque)):
                raise AnalysisError(f"item assignment on {type(obj).__name__}")
            elif isinstance(obj, AObj):
                r, _ = obj.cls.lookup("__setitem__")
                if r is MISSING:
                    raise PyRaise(BuiltinExcValue(EXC["TypeError"], ("item assignment", obj.cls.name)))
                self.call(Bound(r, obj), [idx, v], {})
                return
            obj[idx] = v
        else:
            raise AnalysisError(f"assign target {type(tg).__name__}")

    # ------------------------------------------------------------------ expressions
    def truth(self, v):
        if isinstance(v, SymBool):
            # fork: consult the schedule, extend it with the default (False) when exhausted
            i = len(self.decisions)
            if i < len(self.schedule):
                d = self.schedule[i]
            else:
                d = False
                self.schedule.append(d)
            self.decisions.append((v.label, d))
            return d
        if isinstance(v, Sym):
            raise AnalysisError(f"truth value of symbolic {v!r}")
        if isinstance(v, AObj):
            r, _ = v.cls.lookup("__bool__")
            if r is not MISSING:
                return self.call(Bound(r, v), [], {})
            r, _ = v.cls.lookup("__len__")
            if r is not MISSING:
                return self.call(Bound(r, v), [], {}) != 0
            return True
        if isinstance(v, VTok):
            raise AnalysisError("truth value of version token")
        if isinstance(v, ASet):
            return len(v.items) > 0
        if isinstance(v, (AIter, Native, Func, Bound, ClassInfo, External)):
            return True
        return bool(v)

    def iterate(self, v):
        if isinstance(v, ASet):
            return list(v.items)
        if isinstance(v, (list, tuple, AIter, range, set, frozenset, dict, str, collections.deque)):
            return v if isinstance(v, AIter) else list(v)
        if self._is_nt(v) and v.cls.lookup("__iter__")[0] is MISSING:
            return self._nt_values(v)
        if isinstance(v, AObj):
            r, _ = v.cls.lookup("__iter__")
            if r is MISSING:
                if getattr(v.cls, "is_enum", False):
                    raise AnalysisError("iterating an enum member")
                raise PyRaise(BuiltinExcValue(EXC["TypeError"], ("not iterable", v.cls.name)))
            return self.iterate(self.call(Bound(r, v), [], {}))
        if isinstance(v, Sym) and hasattr(v, "sym_iter"):
            return list(v.sym_iter())
        if isinstance(v, ClassInfo) and getattr(v, "is_enum", False):
            return list(v.members)
        if v is None or isinstance(v, (int, bool)):
            raise PyRaise(BuiltinExcValue(EXC["TypeError"], ("not iterable", repr(v))))
        raise AnalysisError(f"iterate {type(v).__name__}")

    def eval(self, n, env, m):
        self.steps += 1
        meth = self._dispatch.get(type(n))
        if meth is None:
            raise AnalysisError(f"unsupported expression {type(n).__name__} at {m.name}:{getattr(n, 'lineno', '?')}")
        return meth(self, n, env, m)

    def e_Constant(self, n, env, m):
        return n.value

    def e_Name(self, n, env, m):
        v = env.get(n.id)
        if v is MISSING:
            v = m.ns.get(n.id, MISSING)
        if v is MISSING:
            v = self.builtins.get(n.id, MISSING)
        if v is MISSING:
            raise AnalysisError(f"unbound name {n.id} at {m.name}:{n.lineno}")
        return self.resolve(v)

    def e_Attribute(self, n, env, m):
        obj = self.eval(n.value, env, m)
        return self.getattr(obj, n.attr, n, m)

    def getattr(self, obj, attr, n=None, m=None):
        obj = self.resolve(obj)
        if isinstance(obj, AObj):
            cv, owner = obj.cls.lookup(attr)
            if isinstance(cv, Func) and cv.kind in ("property", "cached_property"):
                if cv.kind == "cached_property" and attr in obj.memo:
                    return obj.memo[attr]
                r = self.call(Bound(cv, obj), [], {})
                if cv.kind == "cached_property":
                    obj.memo[attr] = r
                return r
            if attr in obj.f:
                return obj.f[attr]
            if cv is MISSING and attr in obj.memo:
                return obj.memo[attr]          # written through obj.__dict__[...]
            if cv is MISSING and attr == "__dict__":
                if all((isinstance(c, ClassInfo) and ("__slots__" in c.ns or (c.dc or {}).get("slots"))) or
                       (isinstance(c, External) and c.name in ("object", "Generic", "Protocol", "ABC")) for c in obj.cls.mro):
                    raise PyRaise(BuiltinExcValue(EXC["AttributeError"], ("__dict__",)))
                return obj.memo                # the instance dict: holds what is not a slot/field (cached_property values, ad-hoc attributes)
            if cv is MISSING:
                if attr == "_hash" and self.is_absset(obj):
                    return lambda: ("set", frozenset(self.py_hash(v) for v in self.iterate(obj)))
                if attr == "_replace" and self._is_nt(obj):
                    return lambda **kw: self.b_dc_replace(obj, **kw)
                if attr == "_asdict" and self._is_nt(obj):
                    return lambda: {f[0]: obj.f[f[0]] for f in obj.cls.all_fields()}
                if attr == "isdisjoint" and self.is_absset(obj):
                    return lambda other: not any(self.contains(obj, v) for v in self.iterate(other))
                if attr == "__class__":
                    return obj.cls
                if attr.startswith("__") and attr.endswith("__"):
                    return self._default_dunder(obj, attr)
                raise PyRaise(BuiltinExcValue(EXC["AttributeError"], (attr,)))
            return self.bind(cv, obj, owner)
        if isinstance(obj, ClassInfo):
            cv, owner = obj.lookup(attr)
            if cv is MISSING:
                if attr in ("__name__", "__qualname__"):
                    return obj.name
                if attr == "__module__":
                    return obj.module.name
                if attr == "__doc__":
                    return ast.get_docstring(obj.node) if obj.node is not None else None
                if attr == "__mro__":
                    return tuple(obj.mro)
                if attr == "__bases__":
                    return tuple(obj.bases)
                raise AnalysisError(f"class attr {obj.name}.{attr}")
            if isinstance(cv, Func):
                if cv.kind == "classmethod":
                    return Bound(cv, obj)
                return cv
            return self.classvar(cv, obj, attr, owner)
        if isinstance(obj, tuple) and obj and obj[0] == "extmod":
            stub = self.ext_module(obj[1], lazy=True)
            if attr not in stub:
                sub = obj[1] + "." + attr
                if self._stubs is not None and any(k == sub or k.startswith(sub + ".") for k in self._stubs):
                    return ("extmod", sub)
                return External(f"{obj[1]}.{attr}")
            return stub[attr]
        if isinstance(obj, tuple) and obj and obj[0] == "module":
            return self.resolve(obj[1].ns[attr])
        if isinstance(obj, SuperProxy):
            inst = obj.obj
            cls = inst.cls if isinstance(inst, AObj) else inst
            mro = cls.mro
            start = mro.index(obj.owner) + 1 if obj.owner in mro else 0
            for c in mro[start:]:
                if isinstance(c, ClassInfo) and attr in c.ns:
                    cv = c.ns[attr]
                    if isinstance(cv, Func):
                        return Bound(cv, inst) if cv.kind not in ("staticmethod",) else cv
                    return self.resolve(cv)
                if isinstance(c, External):
                    if attr == "__init__":
                        def _base_init(*a, **k):
                            if isinstance(inst, AObj):
                                inst.f["args"] = tuple(a)
                            return None
                        return _base_init
                    if attr in ("__post_init__", "__init_subclass__"):
                        return lambda *a, **k: None
                    if isinstance(inst, AObj) and attr in ("__eq__", "__ne__", "__hash__", "__repr__", "__str__") and \
                            c.name in ("object", "ABC", "Generic", "Protocol", "ABCMeta"):
                        if attr == "__eq__":
                            return lambda o: True if o is inst else NotImplemented       # object.__eq__
                        if attr == "__hash__":
                            return lambda: ("id", id(inst))                             # object.__hash__
                        if attr == "__ne__":
                            return lambda o: False if o is inst else NotImplemented
                    raise AnalysisError(f"super().{attr} resolves to the opaque base {c.name}")
            if isinstance(inst, AObj) and attr in ("__eq__", "__ne__", "__hash__"):
                # implicit base `object`
                if attr == "__eq__":
                    return lambda o: True if o is inst else NotImplemented
                if attr == "__ne__":
                    return lambda o: False if o is inst else NotImplemented
                return lambda: ("id", id(inst))
            if attr == "__init__":
                return lambda *a, **k: None
            if attr in ("__post_init__", "__init_subclass__"):
                return lambda *a, **k: None
            raise PyRaise(BuiltinExcValue(EXC["AttributeError"], (attr,)))
        if isinstance(obj, Native):
            kind = "Pattern" if hasattr(obj.obj, "pattern") else "Match"
            if attr not in Native.ALLOWED[kind]:
                raise AnalysisError(f"re.{kind}.{attr} not whitelisted")
            val = getattr(obj.obj, attr)
            if callable(val):
                wrap = _native_re()[1]

                def _call(*a, _val=val, **k):
                    if any(isinstance(x, (AObj, VTok, Sym)) for x in a):
                        raise AnalysisError("regex applied to abstract value")
                    return wrap(_val(*a, **k))
                return _call
            return val
        if isinstance(obj, VTok):
            if hasattr(obj, "vattr_" + attr):
                return getattr(obj, "vattr_" + attr)
            raise AnalysisError(f"attribute .{attr} on version token (slice not order-parametric)")
        if isinstance(obj, Sym):
            if not hasattr(obj, "sym_" + attr):
                raise AnalysisError(f"attribute .{attr} not whitelisted on symbolic {obj!r}")
            return getattr(obj, "sym_" + attr)
        if isinstance(obj, tuple) and len(obj) == 2 and obj[0] == "builtin" and attr in ("__name__", "__qualname__"):
            return obj[1]
        if isinstance(obj, tuple) and obj == ("builtin", "chain") and attr == "from_iterable":
            return ("builtin", "chain_from_iterable")
        if isinstance(obj, tuple) and obj == ("builtin", "dict") and attr == "fromkeys":
            def _fromkeys(keys, value=None):
                d = {}
                for k in self.iterate(keys):
                    kk = self.dkey(d, k)
                    if kk not in d:
                        d[kk] = value
                return d
            return _fromkeys
        if isinstance(obj, (str, list, tuple, dict, set, frozenset, ASet, collections.deque)):
            return ("pymethod", obj, attr)
        if obj is self.builtins["object"] and attr == "__setattr__":
            return ("builtin", "object_setattr")
        if obj is None or isinstance(obj, (bool, int, float)):
            if hasattr(obj, attr):
                v = getattr(obj, attr)
                if not callable(v):
                    return v
                return v
            raise PyRaise(BuiltinExcValue(EXC["AttributeError"], (f"'{type(obj).__name__}' object has no attribute '{attr}'",)))
        if isinstance(obj, BuiltinExcValue):
            if attr == "args":
                return tuple(obj.args)
            if attr in ("__cause__", "__context__"):
                return getattr(obj, "cause", None)
        raise AnalysisError(f"getattr {type(obj).__name__}.{attr}")

    def _default_dunder(self, obj, attr):
        """special methods / attributes every object has although the class body does not define them (object's or the dataclass-generated ones)"""
        if attr == "__eq__":
            def _eq(o):
                if obj.cls.dc is not None and obj.cls.dc.get("eq", True):
                    if isinstance(o, AObj) and o.cls is obj.cls:
                        return self.py_eq(obj, o)
                    return NotImplemented
                return True if o is obj else NotImplemented
            return _eq
        if attr == "__ne__":
            def _ne(o):
                r, _ = obj.cls.lookup("__eq__")
                res = self.call(Bound(r, obj), [o], {}) if r is not MISSING else self._default_dunder(obj, "__eq__")(o)
                return NotImplemented if res is NotImplemented else not self.truth(res)
            return _ne
        if attr == "__hash__":
            return lambda: self.py_hash(obj)
        if attr == "__repr__":
            return lambda: self.to_repr(obj)
        if attr == "__str__":
            return lambda: self.to_str(obj)
        if attr == "__doc__":
            return ast.get_docstring(obj.cls.node) if obj.cls.node is not None else None
        if attr == "__module__":
            return obj.cls.module.name
        if attr == "__dataclass_fields__":
            if obj.cls.dc is None:
                raise PyRaise(BuiltinExcValue(EXC["AttributeError"], (attr,)))
            return {f[0]: f for f in obj.cls.all_fields()}
        if attr in ("__lt__", "__le__", "__gt__", "__ge__"):
            if obj.cls.dc is not None and obj.cls.dc.get("order"):
                t = {"__lt__": ast.Lt, "__le__": ast.LtE, "__gt__": ast.Gt, "__ge__": ast.GtE}[attr]
                return lambda o: self.order(t, obj, o) if isinstance(o, AObj) and o.cls is obj.cls else NotImplemented
            return lambda o: NotImplemented
        if attr in ("__init_subclass__", "__post_init__", "__set_name__", "__getattr__", "__getitem__", "__iter__", "__len__", "__contains__",
                    "__call__", "__enter__", "__exit__", "__bool__", "__and__", "__or__", "__invert__", "__rand__", "__ror__", "__add__", "__sub__"):
            raise PyRaise(BuiltinExcValue(EXC["AttributeError"], (attr,)))       # genuinely absent unless the class defines them
        raise AnalysisError(f"special attribute {obj.cls.name}.{attr} is not modelled")

    def classvar(self, cv, cls, attr, owner):
        if isinstance(cv, tuple) and cv and cv[0] == "classvar_lazy":
            v = self.eval(cv[1], cv[2], owner.module)
            owner.ns[attr] = v
            return v
        return self.resolve(cv)

    def bind(self, cv, obj, owner):
        if isinstance(cv, Func):
            if cv.kind == "staticmethod":
                return cv
            if cv.kind == "classmethod":
                return Bound(cv, obj.cls)
            return Bound(cv, obj)
        return self.classvar(cv, obj.cls, None, owner) if isinstance(cv, tuple) and cv and cv[0] == "classvar_lazy" else self.resolve(cv)

    def e_BoolOp(self, n, env, m):
        if isinstance(n.op, ast.And):
            v = True
            for e in n.values:
                v = self.eval(e, env, m)
                if not self.truth(v):
                    return v
            return v
        v = False
        for e in n.values:
            v = self.eval(e, env, m)
            if self.truth(v):
                return v
        return v

    def e_UnaryOp(self, n, env, m):
        v = self.eval(n.operand, env, m)
        if isinstance(n.op, ast.Not):
            return not self.truth(v)
        if isinstance(n.op, ast.Invert):
            if isinstance(v, AObj):
                r, _ = v.cls.lookup("__invert__")
                if r is MISSING:
                    raise PyRaise(BuiltinExcValue(EXC["TypeError"], ("~",)))
                return self.call(Bound(r, v), [], {})
            return ~v
        if isinstance(n.op, (ast.USub, ast.UAdd)):
            if isinstance(v, AObj):
                nm = "__neg__" if isinstance(n.op, ast.USub) else "__pos__"
                r, _ = v.cls.lookup(nm)
                if r is MISSING:
                    raise PyRaise(BuiltinExcValue(EXC["TypeError"], ("unary",)))
                return self.call(Bound(r, v), [], {})
            if isinstance(v, (VTok, Sym)):
                raise AnalysisError("unary arithmetic on opaque value")
            return -v if isinstance(n.op, ast.USub) else +v
        raise AnalysisError("unary op")

    def e_BinOp(self, n, env, m):
        return self.binop(n.op, self.eval(n.left, env, m), self.eval(n.right, env, m))

    _OPN = {ast.BitAnd: ("__and__", "__rand__"), ast.BitOr: ("__or__", "__ror__"),
            ast.Sub: ("__sub__", "__rsub__"), ast.Add: ("__add__", "__radd__"), ast.BitXor: ("__xor__", "__rxor__"),
            ast.Mult: ("__mul__", "__rmul__"), ast.Mod: ("__mod__", "__rmod__"), ast.FloorDiv: ("__floordiv__", "__rfloordiv__"),
            ast.Div: ("__truediv__", "__rtruediv__"), ast.MatMult: ("__matmul__", "__rmatmul__"), ast.Pow: ("__pow__", "__rpow__"),
            ast.LShift: ("__lshift__", "__rlshift__"), ast.RShift: ("__rshift__", "__rrshift__")}

    def binop(self, op, a, b):
        if isinstance(a, Sym) or isinstance(b, Sym):
            name = {ast.BitAnd: "sym_and", ast.BitOr: "sym_or"}.get(type(op))
            x, y = (a, b) if isinstance(a, Sym) else (b, a)
            if name is None or not hasattr(x, name):
                raise AnalysisError(f"operation {type(op).__name__} not whitelisted on symbolic {x!r}")
            return getattr(x, name)(y)
        if isinstance(a, VTok) or isinstance(b, VTok):
            raise AnalysisError("arithmetic on version token")
        if isinstance(a, AObj) or isinstance(b, AObj):
            names = self._OPN.get(type(op))
            if names is None:
                raise AnalysisError(f"operator {type(op).__name__} on objects")
            fwd, rev = names
            sm = self.set_mixin(fwd, a, b)
            if sm is not MISSING:
                return sm
            if isinstance(a, AObj):
                r, _ = a.cls.lookup(fwd)
                if r is not MISSING:
                    res = self.call(Bound(r, a), [b], {})
                    if res is not NotImplemented:
                        return res
            if isinstance(b, AObj) and not (isinstance(a, AObj) and a.cls is b.cls):
                r, _ = b.cls.lookup(rev)
                if r is not MISSING:
                    res = self.call(Bound(r, b), [a], {})
                    if res is not NotImplemented:
                        return res
            raise PyRaise(BuiltinExcValue(EXC["TypeError"], (f"unsupported operand {fwd}", a, b)))
        t = type(op)
        if isinstance(a, AKeys) or isinstance(b, AKeys):
            if t in (ast.BitAnd, ast.BitOr, ast.Sub, ast.BitXor):
                a = ASet(self, a) if isinstance(a, AKeys) else a
                b = ASet(self, self.iterate(b)) if not isinstance(b, (ASet, set, frozenset)) else b
        if isinstance(a, ASet) or isinstance(b, ASet):
            nm = {ast.BitAnd: "intersection", ast.BitOr: "union", ast.Sub: "difference",
                  ast.BitXor: "symmetric_difference"}.get(t)
            if nm is None or not isinstance(a, (ASet, set, frozenset)) or not isinstance(b, (ASet, set, frozenset)):
                raise PyRaise(BuiltinExcValue(EXC["TypeError"], ("set operator",)))
            return self.setmethod(a, nm, [b])
        try:
            return self._native_binop(t, a, b)
        except self._NATIVE_EXC as e:
            self._reraise_native(e)

    def _native_binop(self, t, a, b):
        if t is ast.Add:
            return a + b
        if t is ast.Sub:
            return a - b
        if t is ast.Mult:
            return a * b
        if t is ast.BitAnd:
            return a & b
        if t is ast.BitOr:
            return a | b
        if t is ast.Mod:
            return a % b
        if t is ast.FloorDiv:
            return a // b
        if t is ast.Pow:
            return a ** b
        if t is ast.Div:
            return a / b
        if t is ast.BitXor:
            return a ^ b
        if t is ast.LShift:
            return a << b
        if t is ast.RShift:
            return a >> b
        raise AnalysisError(f"binop {t.__name__}")

    def is_absset(self, x):
        return isinstance(x, AObj) and any(isinstance(c, External) and c.name in ("AbstractSet", "Set") for c in x.cls.mro)

    def set_mixin(self, fwd, a, b):
        """collections.abc.Set mixin methods (documented stdlib semantics), result via cls(iterable)."""
        if self.is_absset(a) and a.cls.lookup(fwd)[0] is MISSING:
            other = self.iterate(b) if (self.is_absset(b) or isinstance(b, (set, frozenset, list, tuple))) else None
            if other is None:
                return MISSING
            mine = self.iterate(a)
            if fwd == "__and__":
                items = [v for v in other if self.contains(a, v)]
            elif fwd == "__or__":
                items = list(mine) + list(other)
            elif fwd == "__sub__":
                items = [v for v in mine if not self.contains(b, v)]
            elif fwd == "__xor__":
                items = [v for v in mine if not self.contains(b, v)] + [v for v in other if not self.contains(a, v)]
            else:
                return MISSING
            # collections.abc.Set builds results through the classmethod hook _from_iterable (default: cls(iterable))
            hook, _ = a.cls.lookup("_from_iterable")
            if hook is not MISSING and isinstance(hook, Func):
                return self.call(Bound(hook, a.cls) if hook.kind == "classmethod" else hook, [items] if hook.kind != "plain" else [a, items], {})
            return self.construct(a.cls, [items], {})
        if self.is_absset(b) and not isinstance(a, AObj) and isinstance(a, (set, frozenset)):
            return self.set_mixin(fwd, b, a) if fwd in ("__and__", "__or__") else MISSING
        return MISSING

    def py_eq(self, a, b):
        if isinstance(a, AKeys) or isinstance(b, AKeys):
            if isinstance(a, AKeys) and isinstance(b, (AKeys, set, frozenset, ASet)) or isinstance(b, AKeys) and isinstance(a, (set, frozenset, ASet)):
                a = ASet(self, a) if not isinstance(a, ASet) else a
                b = ASet(self, b) if not isinstance(b, ASet) else b
            else:
                return False
        if isinstance(a, ASet) or isinstance(b, ASet):
            if isinstance(a, (set, frozenset)):
                a = ASet(self, a)
            if isinstance(b, (set, frozenset)):
                b = ASet(self, b)
            if not (isinstance(a, ASet) and isinstance(b, ASet)):
                if self.is_absset(a) or self.is_absset(b):
                    x, y = (a, b) if isinstance(a, ASet) else (b, a)
                    ys = list(self.iterate(y))
                    return len(x.items) == len(ys) and all(x.has(v) for v in ys)
                return False
            return len(a.items) == len(b.items) and all(b.has(v) for v in a.items)
        if self.is_absset(a) and a.cls.lookup("__eq__")[0] is MISSING:
            if not (self.is_absset(b) or isinstance(b, (set, frozenset))):
                return False
            xs, ys = list(self.iterate(a)), list(self.iterate(b))
            return len(xs) == len(ys) and all(self.contains(b, v) for v in xs)
        if (self._is_nt(a) and (self._is_nt(b) or isinstance(b, tuple))) or (self._is_nt(b) and isinstance(a, tuple)):
            if not (isinstance(a, AObj) and a.cls.lookup("__eq__")[0] is not MISSING):
                return self.py_eq(tuple(self.iterate(a)), tuple(self.iterate(b)))
        if isinstance(a, AObj) or isinstance(b, AObj):
            for x, y in ((a, b), (b, a)):
                if isinstance(x, AObj):
                    r, _ = x.cls.lookup("__eq__")
                    if r is not MISSING:
                        res = self.call(Bound(r, x), [y], {})
                    elif x.cls.dc is not None and x.cls.dc.get("eq", True):
                        if isinstance(y, AObj) and y.cls is x.cls:
                            res = all(self.py_eq(x.f[f[0]], y.f[f[0]]) for f in x.cls.all_fields() if f[2])
                        else:
                            res = NotImplemented
                    else:
                        res = NotImplemented
                    if res is not NotImplemented:
                        return self.truth(res)
            return a is b
        if isinstance(a, (tuple, list)) and type(a) is type(b):
            return len(a) == len(b) and all(self.py_eq(x, y) for x, y in zip(a, b))
        if isinstance(a, VTok) or isinstance(b, VTok):
            return isinstance(a, VTok) and isinstance(b, VTok) and a.rank == b.rank
        return a == b

    def _abstract_key(self, k):
        return isinstance(k, (AObj, VTok, ASet)) or (isinstance(k, tuple) and any(self._abstract_key(x) for x in k))

    def dkey(self, d, k):
        """the key of dict d that equals k under the *interpreted* __eq__ (Python dicts of the interpreter hold abstract objects by
        identity; dep_logic objects are value-like)"""
        if not self._abstract_key(k):
            return k
        for e in d:
            if e is k:
                return k
        for e in d:
            if self._abstract_key(e) and self.py_eq(e, k):
                return e
        return k

    def contains(self, container, item):
        if isinstance(container, ASet):
            return container.has(item)
        if isinstance(container, AObj):
            r, _ = container.cls.lookup("__contains__")
            if r is MISSING:
                return any(self.py_eq(item, x) for x in self.iterate(container))
            return self.truth(self.call(Bound(r, container), [item], {}))
        if isinstance(container, str):
            if not isinstance(item, str):
                raise PyRaise(BuiltinExcValue(EXC["TypeError"], ("in str",)))
            return item in container
        if isinstance(container, dict):
            return self.dkey(container, item) in container
        return any(self.py_eq(item, x) for x in self.iterate(container))

    def _same(self, a, b):
        if a is b:
            return True
        a, b = self.resolve(a), self.resolve(b)
        if a is b:
            return True
        if isinstance(a, tuple) and isinstance(b, tuple) and a and b and a[0] == b[0] == "builtin":
            return a[1] == b[1]
        return False

    def e_Compare(self, n, env, m):
        left = self.eval(n.left, env, m)
        for op, rn in zip(n.ops, n.comparators):
            right = self.eval(rn, env, m)
            t = type(op)
            if t is ast.Is:
                r = self._same(left, right)
            elif t is ast.IsNot:
                r = not self._same(left, right)
            elif t is ast.Eq:
                r = self.py_eq(left, right)
            elif t is ast.NotEq:
                r = not self.py_eq(left, right)
            elif t is ast.In:
                r = self.contains(right, left)
            elif t is ast.NotIn:
                r = not self.contains(right, left)
            else:
                r = self.order(t, left, right)
            if not r:
                return False
            left = right
        return True

    def _is_nt(self, x):
        return isinstance(x, AObj) and x.cls.dc is not None and x.cls.dc.get("namedtuple", False)

    def _nt_values(self, x):
        return [x.f[f[0]] for f in x.cls.all_fields()]

    def order(self, t, a, b):
        if isinstance(a, Sym) or isinstance(b, Sym):
            x = a if isinstance(a, Sym) else b
            if not hasattr(x, "sym_order"):
                raise AnalysisError(f"ordering not whitelisted on symbolic {x!r}")
            return self.truth(x.sym_order(t, a, b))
        if isinstance(a, (ASet, set, frozenset)) and isinstance(b, (ASet, set, frozenset)):
            A = a if isinstance(a, ASet) else ASet(self, a)
            B = b if isinstance(b, ASet) else ASet(self, b)
            sub = all(B.has(v) for v in A.items)
            sup = all(A.has(v) for v in B.items)
            if t is ast.LtE:
                return sub
            if t is ast.GtE:
                return sup
            if t is ast.Lt:
                return sub and len(A.items) < len(B.items)
            return sup and len(A.items) > len(B.items)
        if isinstance(a, VTok) and isinstance(b, VTok):
            a, b = a.rank, b.rank
        elif isinstance(a, VTok) or isinstance(b, VTok):
            raise AnalysisError("ordering token against non-token")
        elif isinstance(a, AObj) or isinstance(b, AObj):
            names = {ast.Lt: ("__lt__", "__gt__"), ast.Gt: ("__gt__", "__lt__"), ast.LtE: ("__le__", "__ge__"), ast.GtE: ("__ge__", "__le__")}[t]
            for x, y, nm in ((a, b, names[0]), (b, a, names[1])):
                if isinstance(x, AObj):
                    r, _ = x.cls.lookup(nm)
                    if r is not MISSING:
                        res = self.call(Bound(r, x), [y], {})
                        if res is not NotImplemented:
                            return self.truth(res)
            if self.is_absset(a) and (self.is_absset(b) or isinstance(b, (ASet, set, frozenset))) or \
                    self.is_absset(b) and isinstance(a, (ASet, set, frozenset)):
                # collections.abc.Set mixin: subset / superset comparisons through __contains__ / __len__
                xs, ys = list(self.iterate(a)), list(self.iterate(b))
                sub = all(self.contains(b, v) for v in xs)
                sup = all(self.contains(a, v) for v in ys)
                if t is ast.LtE:
                    return len(xs) <= len(ys) and sub
                if t is ast.GtE:
                    return len(xs) >= len(ys) and sup
                if t is ast.Lt:
                    return len(xs) < len(ys) and sub
                return len(xs) > len(ys) and sup
            for x, y, flip in ((a, b, False), (b, a, True)):
                if isinstance(x, AObj) and getattr(x.cls, "total_ordering", False):
                    for root in ("__lt__", "__le__", "__gt__", "__ge__"):
                        r, _ = x.cls.lookup(root)
                        if r is MISSING:
                            continue
                        res = self.call(Bound(r, x), [y], {})
                        if res is NotImplemented:
                            break
                        res = self.truth(res)
                        eq = self.py_eq(x, y)
                        lt = {"__lt__": res, "__le__": res and not eq, "__gt__": (not res) and not eq, "__ge__": not res}[root]   # x < y
                        gt = (not lt) and not eq
                        if flip:
                            lt, gt = gt, lt
                        return {ast.Lt: lt, ast.LtE: lt or eq, ast.Gt: gt, ast.GtE: gt or eq}[t]
            if self._is_nt(a) and self._is_nt(b) or (self._is_nt(a) and isinstance(b, tuple)) or (self._is_nt(b) and isinstance(a, tuple)):
                ka, kb = tuple(self.iterate(a)), tuple(self.iterate(b))
                if self.py_eq(ka, kb):
                    return t in (ast.LtE, ast.GtE)
                lt = self._lt(ka, kb)
                return lt if t in (ast.Lt, ast.LtE) else not lt
            if isinstance(a, AObj) and isinstance(b, AObj) and a.cls is b.cls and a.cls.dc is not None and a.cls.dc.get("order"):
                ka = tuple(a.f[f[0]] for f in a.cls.all_fields() if f[2])
                kb = tuple(b.f[f[0]] for f in b.cls.all_fields() if f[2])
                if self.py_eq(ka, kb):
                    return t in (ast.LtE, ast.GtE)
                lt = self._lt(ka, kb)
                return lt if t in (ast.Lt, ast.LtE) else not lt
            raise PyRaise(BuiltinExcValue(EXC["TypeError"], ("ordering not supported", getattr(getattr(a, "cls", None), "name", type(a).__name__),
                                                              getattr(getattr(b, "cls", None), "name", type(b).__name__))))
        try:
            if t is ast.Lt:
                return a < b
            if t is ast.Gt:
                return a > b
            if t is ast.LtE:
                return a <= b
            return a >= b
        except TypeError as e:
            raise PyRaise(BuiltinExcValue(EXC["TypeError"], (str(e),)))

    def e_IfExp(self, n, env, m):
        c = self.truth(self.eval(n.test, env, m))
        return self.eval(n.body if c else n.orelse, env, m)

    def e_NamedExpr(self, n, env, m):
        v = self.eval(n.value, env, m)
        # walrus binds in the enclosing function scope, also from comprehensions
        e = env
        while e.parent is not None and e.is_comp:
            e = e.parent
        e.vars[n.target.id] = v
        return v

    def _seq(self, elts, env, m):
        out = []
        for e in elts:
            if isinstance(e, ast.Starred):
                out.extend(self.iterate(self.eval(e.value, env, m)))
            else:
                out.append(self.eval(e, env, m))
        return out

    def e_Tuple(self, n, env, m):
        return tuple(self._seq(n.elts, env, m))

    def e_List(self, n, env, m):
        return self._seq(n.elts, env, m)

    def e_Set(self, n, env, m):
        return self.mkset(self._seq(n.elts, env, m))

    def mkset(self, items):
        items = list(items)
        if all(isinstance(x, (str, int, bool, type(None))) for x in items):
            return set(items)
        return ASet(self, items)

    def e_Dict(self, n, env, m):
        d = {}
        for k, v in zip(n.keys, n.values):
            if k is None:
                for kk, vv in self.eval(v, env, m).items():
                    d[self.dkey(d, kk)] = vv
            else:
                kk = self.eval(k, env, m)
                d[self.dkey(d, kk)] = self.eval(v, env, m)
        return d

    def e_Subscript(self, n, env, m):
        obj = self.eval(n.value, env, m)
        if isinstance(obj, External):
            return obj
        if isinstance(n.slice, ast.Slice):
            lo = self.eval(n.slice.lower, env, m) if n.slice.lower else None
            hi = self.eval(n.slice.upper, env, m) if n.slice.upper else None
            st = self.eval(n.slice.step, env, m) if n.slice.step else None
            return obj[lo:hi:st]
        idx = self.eval(n.slice, env, m)
        if isinstance(obj, Native):
            if hasattr(obj.obj, "group"):
                try:
                    return obj.obj[idx]
                except IndexError:
                    raise PyRaise(BuiltinExcValue(EXC["IndexError"], ("no such group",)))
            raise AnalysisError("subscript on a compiled pattern")
        if isinstance(obj, ClassInfo) and getattr(obj, "is_enum", False):
            for mem in obj.members:
                if mem.f.get("name") == idx:
                    return mem
            raise PyRaise(BuiltinExcValue(EXC["KeyError"], (idx,)))
        if isinstance(obj, ClassInfo):
            return obj      # generic alias C[T]
        if isinstance(obj, AObj):
            r, _ = obj.cls.lookup("__getitem__")
            if r is MISSING:
                if self._is_nt(obj):
                    try:
                        return self._nt_values(obj)[idx]
                    except IndexError:
                        raise PyRaise(BuiltinExcValue(EXC["IndexError"], ()))
                raise PyRaise(BuiltinExcValue(EXC["TypeError"], ("not subscriptable", obj.cls.name)))
            return self.call(Bound(r, obj), [idx], {})
        if isinstance(obj, (VTok, Sym)):
            raise AnalysisError(f"subscript on opaque value {obj!r}")
        if isinstance(obj, dict):
            idx = self.dkey(obj, idx)
        try:
            return obj[idx]
        except IndexError:
            raise PyRaise(BuiltinExcValue(EXC["IndexError"], ()))
        except KeyError:
            raise PyRaise(BuiltinExcValue(EXC["KeyError"], (idx,)))

    def e_Slice(self, n, env, m):
        lo = self.eval(n.lower, env, m) if n.lower else None
        hi = self.eval(n.upper, env, m) if n.upper else None
        st = self.eval(n.step, env, m) if n.step else None
        return slice(lo, hi, st)

    def _comp(self, gens, env, m, emit):
        def rec(i, e):
            if i == len(gens):
                emit(e)
                return
            g = gens[i]
            for item in self.iterate(self.eval(g.iter, e, m)):
                e2 = Env(e)
                e2.is_comp = True
                self.assign(g.target, item, e2, m)
                if all(self.truth(self.eval(c, e2, m)) for c in g.ifs):
                    rec(i + 1, e2)
        e0 = Env(env)
        e0.is_comp = True
        rec(0, e0)

    def e_ListComp(self, n, env, m):
        out = []
        self._comp(n.generators, env, m, lambda e: out.append(self.eval(n.elt, e, m)))
        return out

    def e_GeneratorExp(self, n, env, m):
        return AIter(self.e_ListComp(n, env, m))

    def e_DictComp(self, n, env, m):
        out = {}

        def emit(e):
            kk = self.eval(n.key, e, m)
            out[self.dkey(out, kk)] = self.eval(n.value, e, m)
        self._comp(n.generators, env, m, emit)
        return out

    def e_SetComp(self, n, env, m):
        return self.mkset(self.e_ListComp(n, env, m))

    def e_Yield(self, n, env, m):
        out = env.get("__yield__")
        if out is MISSING:
            raise AnalysisError("yield outside a modelled generator")
        out.append(self.eval(n.value, env, m) if n.value is not None else None)
        if len(out) > 100000:
            raise AnalysisError("generator bound")
        return None

    def e_YieldFrom(self, n, env, m):
        out = env.get("__yield__")
        if out is MISSING:
            raise AnalysisError("yield outside a modelled generator")
        out.extend(self.iterate(self.eval(n.value, env, m)))
        return None

    def e_Starred(self, n, env, m):
        raise AnalysisError("starred expression outside a call / display")

    def e_Lambda(self, n, env, m):
        return Func(n, m, env, None, "plain")

    def e_JoinedStr(self, n, env, m):
        out = []
        for v in n.values:
            if isinstance(v, ast.Constant):
                out.append(v.value)
            else:
                val = self.eval(v.value, env, m)
                spec = self.e_JoinedStr(v.format_spec, env, m) if v.format_spec is not None else ""
                if v.conversion == 114:  # !r
                    try:
                        txt = self.to_repr(val)
                    except AnalysisError:
                        txt = "<" + self.to_str(val) + ">"
                    txt = format(txt, spec) if spec else txt
                elif v.conversion == 115:  # !s
                    txt = self.to_str(val)
                    txt = format(txt, spec) if spec else txt
                elif v.conversion == 97:  # !a
                    txt = format(ascii(self.to_repr(val))[1:-1] if not isinstance(val, str) else ascii(val), spec)
                else:
                    if spec and isinstance(val, (int, float, str)) and not isinstance(val, bool):
                        txt = format(val, spec)
                    else:
                        txt = self.to_str(val)
                        txt = format(txt, spec) if spec else txt
                out.append(txt)
        return "".join(out)

    def _is_exc_obj(self, v):
        return isinstance(v, AObj) and any(isinstance(c, External) and (c.name in EXC or c.name.endswith(("Error", "Exception", "Warning")))
                                           for c in v.cls.mro)

    def to_repr(self, v):
        if isinstance(v, AObj):
            r, _ = v.cls.lookup("__repr__")
            if r is not MISSING:
                return self.call(Bound(r, v), [], {})
            if getattr(v.cls, "is_enum", False):
                return f"<{v.cls.name}.{v.f.get('name')}: {self.to_repr(v.f.get('value'))}>"
            if v.cls.dc is not None and v.cls.dc.get("repr", True):
                parts = [f"{f[0]}={self.to_repr(v.f[f[0]])}" for f in v.cls.all_fields() if f[0] in v.f and (len(f) < 6 or f[5] is not False)]
                return f"{v.cls.name}({', '.join(parts)})"
            if self._is_exc_obj(v):
                return f"{v.cls.name}({', '.join(self.to_repr(a) for a in v.f.get('args', ()))})"
            raise AnalysisError(f"default object repr of {v.cls.name} (address-dependent)")
        if isinstance(v, BuiltinExcValue):
            return f"{v.cls.name}({', '.join(self.to_repr(a) for a in v.args)})"
        if isinstance(v, list):
            return "[" + ", ".join(self.to_repr(x) for x in v) + "]"
        if isinstance(v, tuple) and not (v and v[0] in ("builtin", "lazy", "module", "extmod", "pymethod", "deco")):
            return "(" + ", ".join(self.to_repr(x) for x in v) + ("," if len(v) == 1 else "") + ")"
        if isinstance(v, dict):
            return "{" + ", ".join(f"{self.to_repr(k)}: {self.to_repr(x)}" for k, x in v.items()) + "}"
        if isinstance(v, ASet):
            if any(isinstance(x, (AObj, VTok)) for x in v.items):
                raise AnalysisError("repr of a set of abstract objects (iteration order is hash-dependent)")
            return repr(set(v.items)) if v.items else "set()"
        if isinstance(v, VTok):
            if hasattr(v, "vrepr"):
                return v.vrepr()
            raise AnalysisError("repr() of version token")
        if isinstance(v, (Native, Func, Bound, ClassInfo, External, Sym, AIter)):
            raise AnalysisError(f"repr() of {type(v).__name__}")
        return repr(v)

    def to_str(self, v):
        if isinstance(v, AObj):
            r, _ = v.cls.lookup("__str__")
            if r is MISSING:
                if self._is_exc_obj(v):
                    a = v.f.get("args", ())
                    return "" if not a else (self.to_str(a[0]) if len(a) == 1 else self.to_repr(tuple(a)))
                return self.to_repr(v)
            return self.call(Bound(r, v), [], {})
        if isinstance(v, BuiltinExcValue):
            a = v.args
            return "" if not a else (self.to_str(a[0]) if len(a) == 1 else self.to_repr(tuple(a)))
        if isinstance(v, (list, tuple, dict, ASet)):
            return self.to_repr(v)
        if isinstance(v, VTok):
            if hasattr(v, "vstr"):
                return v.vstr()
            raise AnalysisError("str() of version token")
        if isinstance(v, (Native, Func, Bound, ClassInfo, External)):
            raise AnalysisError(f"str() of {type(v).__name__}")
        return str(v)

    def e_Call(self, n, env, m):
        if isinstance(n.func, ast.Name) and n.func.id == "super" and env.get("super") is MISSING:
            owner, first = env.get("__class__"), env.get("__first_arg__")
            if owner is MISSING or first is MISSING:
                raise AnalysisError("super() outside a method")
            if n.args:
                owner = self.resolve(self.eval(n.args[0], env, m))
                first = self.eval(n.args[1], env, m) if len(n.args) > 1 else first
            return SuperProxy(first, owner)
        f = self.eval(n.func, env, m)
        args = self._seq(n.args, env, m)
        kwargs = {}
        for kw in n.keywords:
            if kw.arg is None:
                kwargs.update(self.eval(kw.value, env, m))
            else:
                kwargs[kw.arg] = self.eval(kw.value, env, m)
        return self.call(f, args, kwargs, n, m)

    # ------------------------------------------------------------------ calls
    def call(self, f, args, kwargs, n=None, m=None):
        f = self.resolve(f)
        if isinstance(f, Bound):
            return self.call_func(f.func, [f.self_] + list(args), kwargs)
        if isinstance(f, Func):
            return self.call_func(f, list(args), kwargs)
        if isinstance(f, ClassInfo):
            o = self.construct(f, args, kwargs)
            if n is not None and isinstance(o, AObj) and o.site is None:
                o.site = (self.fstack[-1] if self.fstack else (m.name if m else "?"), n.lineno)
            return o
        if isinstance(f, tuple) and f == ("deco", "lru_cache"):
            # lru_cache(maxsize=...) -> decorator; lru_cache(fn) / cache(fn) -> memoised fn
            if len(args) == 1 and not kwargs and self.b_callable(args[0]) and not isinstance(args[0], (int, bool, type(None))):
                return _MemoWrap(args[0])
            return lambda fn: _MemoWrap(fn)
        if isinstance(f, _MemoWrap):
            if not self.model_caches:
                return self.call(f.f, args, kwargs, n, m)
            keyargs = list(args) + [v for _, v in sorted(kwargs.items())]
            hk = tuple(self.py_hash(a) for a in keyargs)
            bucket = f.memo.setdefault(hk, [])
            for kargs, val in bucket:
                if len(kargs) == len(keyargs) and all(self.py_eq(x, y) for x, y in zip(kargs, keyargs)):
                    return val
            val = self.call(f.f, args, kwargs, n, m)
            bucket.append((keyargs, val))
            return val
        if isinstance(f, _Partial):
            kw = dict(f.kwargs)
            kw.update(kwargs)
            return self.call(f.f, f.args + list(args), kw, n, m)
        if isinstance(f, tuple) and f and f[0] == "builtin":
            try:
                return getattr(self, "b_" + f[1])(*args, **kwargs)
            except TypeError as e:
                if "b_" + f[1] in str(e) and ("argument" in str(e)):
                    raise AnalysisError(f"builtin {f[1]} called with an unmodelled signature: {e}")
                raise
        if isinstance(f, tuple) and f and f[0] == "pymethod":
            return self.pymethod(f[1], f[2], args, kwargs)
        if isinstance(f, AObj):
            r, _ = f.cls.lookup("__call__")
            if r is MISSING:
                raise PyRaise(BuiltinExcValue(EXC["TypeError"], ("not callable", f.cls.name)))
            return self.call_func(r, [f] + list(args), kwargs)
        if f is self.builtins["object"] and not args and not kwargs:
            return object()        # a fresh sentinel: only identity, truth and hashing are meaningful
        if isinstance(f, External):
            h = self.opaque_calls.get(f.name)
            if h is None and (f.name in EXC or f.name.endswith(("Error", "Exception", "Warning"))):
                return BuiltinExcValue(f, tuple(a if isinstance(a, (str, int, bool, type(None))) else repr(a) for a in args))
            if h is None:
                raise AnalysisError(f"call of opaque external {f.name}")
            return h(*args, **kwargs)
        if callable(f):
            try:
                return f(*args, **kwargs)
            except self._NATIVE_EXC as e:
                if isinstance(e, (PyRaise,)):
                    raise
                self._reraise_native(e)
        raise AnalysisError(f"call of {f!r}")

    def call_func(self, func, args, kwargs):
        if getattr(func, "unknown_deco", None):
            raise AnalysisError(f"call of {func.qualname} decorated with unmodelled decorator {func.unknown_deco}")
        ov = self.overrides.get(func.module.name + ":" + func.qualname)
        if ov is not None:
            return ov(*args, **kwargs)
        if getattr(func, "memo", None) is not None and self.model_caches:
            # functools.lru_cache / cache: keyed by the arguments' __hash__ and __eq__ (interpreted), results shared
            keyargs = list(args) + [v for _, v in sorted(kwargs.items())]
            hk = tuple(self.py_hash(a) for a in keyargs)
            bucket = func.memo.setdefault(hk, [])
            for kargs, val in bucket:
                if len(kargs) == len(keyargs) and all(self.py_eq(x, y) for x, y in zip(kargs, keyargs)):
                    return val
            val = self._call_func_body(func, args, kwargs)
            bucket.append((keyargs, val))
            return val
        return self._call_func_body(func, args, kwargs)

    def _call_func_body(self, func, args, kwargs):
        node = func.node
        a = node.args
        env = Env(func.closure)
        params = [p.arg for p in a.posonlyargs + a.args]
        defaults = a.defaults
        nd = len(params) - len(defaults)
        if len(args) > len(params) and not a.vararg:
            raise PyRaise(BuiltinExcValue(EXC["TypeError"], ("too many args", func.qualname)))
        for i, p in enumerate(params):
            if i < len(args):
                env.vars[p] = args[i]
            elif p in kwargs:
                env.vars[p] = kwargs.pop(p)
            elif i >= nd:
                env.vars[p] = self.eval(defaults[i - nd], func.closure, func.module)
            else:
                raise PyRaise(BuiltinExcValue(EXC["TypeError"], ("missing arg", p, func.qualname)))
        if a.vararg:
            env.vars[a.vararg.arg] = tuple(args[len(params):])
        for p, d in zip(a.kwonlyargs, a.kw_defaults):
            if p.arg in kwargs:
                env.vars[p.arg] = kwargs.pop(p.arg)
            elif d is not None:
                env.vars[p.arg] = self.eval(d, func.closure, func.module)
            else:
                raise PyRaise(BuiltinExcValue(EXC["TypeError"], ("missing kwonly", p.arg)))
        if a.kwarg:
            env.vars[a.kwarg.arg] = dict(kwargs)
        elif kwargs:
            raise PyRaise(BuiltinExcValue(EXC["TypeError"], ("unexpected kwargs", tuple(kwargs), func.qualname)))
        if isinstance(node, ast.Lambda):
            return self.eval(node.body, env, func.module)
        if func.owner is not None:
            env.vars["__class__"] = func.owner
            env.vars["__first_arg__"] = args[0] if args else None
        qn = func.module.name + ":" + func.qualname
        self.fstack.append(qn)
        self.funcs_seen.add(qn)
        if len(self.fstack) > 400:
            self.fstack.pop()
            raise AnalysisError(f"call depth exceeded in {func.qualname}")
        gen = getattr(func, "is_gen", False)
        if gen:
            # generators are run eagerly to completion (pure code: laziness is unobservable); the yields are collected
            env.vars["__yield__"] = out = []
        try:
            self.exec_block(node.body, env, func.module)
        except _Return as r:
            self.last_return = (func.module.name + ":" + func.qualname, r.lineno)
            if gen:
                return AIter(iter(out))
            return r.value
        finally:
            self.fstack.pop()
        if gen:
            return AIter(iter(out))
        return None

    def construct(self, cls, args, kwargs):
        if getattr(cls, "is_enum", False):
            for mem in cls.members:
                if self.py_eq(mem.f["value"], args[0]):
                    return mem
            raise PyRaise(BuiltinExcValue(EXC["ValueError"], ("not a valid enum value", args[0])))
        obj = AObj(cls)
        init, owner = cls.lookup("__init__")
        if init is not MISSING:
            self.call_func(init, [obj] + list(args), kwargs)
            return obj
        if any(isinstance(c, ClassInfo) and c.dc is not None for c in cls.mro):
            fields = [f for f in cls.all_fields()]
            init_fields = [f for f in fields if f[4]]
            if len(args) > len(init_fields):
                raise PyRaise(BuiltinExcValue(EXC["TypeError"], ("too many ctor args", cls.name)))
            kwargs = dict(kwargs)
            for i, f in enumerate(init_fields):
                if i < len(args):
                    obj.f[f[0]] = args[i]
                elif f[0] in kwargs:
                    obj.f[f[0]] = kwargs.pop(f[0])
                elif f[1] is not MISSING:
                    obj.f[f[0]] = self.eval(f[1], cls.module.env, cls.module)
                else:
                    raise PyRaise(BuiltinExcValue(EXC["TypeError"], ("missing ctor arg", f[0], cls.name)))
            if kwargs:
                raise PyRaise(BuiltinExcValue(EXC["TypeError"], ("unexpected ctor kwargs", tuple(kwargs))))
            post, _ = cls.lookup("__post_init__")
            if post is not MISSING:
                self.call_func(post, [obj], {})
            return obj
        if args or kwargs:
            if any(isinstance(c, External) and (c.name in EXC or c.name.endswith(("Error", "Exception"))) for c in cls.mro):
                obj.f["args"] = tuple(args)   # BaseException.__init__(*args)
                return obj
            raise PyRaise(BuiltinExcValue(EXC["TypeError"], ("ctor args", cls.name)))
        return obj

    _NATIVE_EXC = (ValueError, KeyError, IndexError, TypeError, AttributeError, ZeroDivisionError, OverflowError)

    def _reraise_native(self, e):
        name = type(e).__name__
        cls = EXC.get(name) or EXC["Exception"]
        raise PyRaise(BuiltinExcValue(cls, tuple(str(a) for a in e.args)))

    def pymethod(self, obj, name, args, kwargs):
        if any(isinstance(a, (AObj, VTok, Sym)) for a in args) and isinstance(obj, str) and name != "join":
            raise AnalysisError(f"str.{name} applied to an abstract value")
        try:
            return self._pymethod(obj, name, args, kwargs)
        except self._NATIVE_EXC as e:
            self._reraise_native(e)

    def _pymethod(self, obj, name, args, kwargs):
        if isinstance(obj, list) and name == "remove":
            for i, x in enumerate(obj):
                if self.py_eq(x, args[0]):
                    del obj[i]
                    return None
            raise PyRaise(BuiltinExcValue(EXC["ValueError"], ("list.remove(x): x not in list",)))
        if isinstance(obj, list) and name in ("clear", "reverse"):
            return getattr(obj, name)()
        if isinstance(obj, list) and name == "sort":
            items = self.b_sorted(obj, **kwargs)
            obj[:] = items
            return None
        if isinstance(obj, list) and name in ("append", "extend", "insert", "pop", "index", "count", "copy"):
            if name == "extend":
                obj.extend(self.iterate(args[0]))
                return None
            if name == "count":
                return sum(1 for x in obj if self.py_eq(x, args[0]))
            if name == "index":
                for i, x in enumerate(obj):
                    if self.py_eq(x, args[0]):
                        return i
                raise PyRaise(BuiltinExcValue(EXC["ValueError"], ("index",)))
            return getattr(obj, name)(*args)
        if isinstance(obj, tuple) and name in ("count", "index"):
            return self.pymethod(list(obj), name, args, kwargs)
        if isinstance(obj, str):
            if name == "join":
                return obj.join(self.to_str(x) if not isinstance(x, str) else x for x in self.iterate(args[0]))
            return getattr(obj, name)(*args, **kwargs)
        if isinstance(obj, dict):
            if name == "keys":
                return AKeys(obj.keys())
            if name in ("items", "values"):
                return list(getattr(obj, name)())
            if name in ("get", "pop", "setdefault") and args:
                args = [self.dkey(obj, args[0])] + list(args[1:])
                return getattr(obj, name)(*args)
            if name == "update":
                for src in args:
                    for kk, vv in (src.items() if isinstance(src, dict) else [tuple(self.iterate(x)) for x in self.iterate(src)]):
                        obj[self.dkey(obj, kk)] = vv
                obj.update(kwargs)
                return None
            if name in ("copy", "clear", "popitem"):
                return getattr(obj, name)()
        if isinstance(obj, collections.deque) and name in ("append", "appendleft", "pop", "popleft", "extend", "extendleft", "clear", "rotate"):
            if name in ("extend", "extendleft"):
                return getattr(obj, name)(list(self.iterate(args[0])))
            return getattr(obj, name)(*args)
        if isinstance(obj, (set, frozenset, ASet)):
            return self.setmethod(obj, name, args)
        raise AnalysisError(f"method {type(obj).__name__}.{name}")

    def setmethod(self, obj, name, args):
        a = obj if isinstance(obj, ASet) else ASet(self, obj)
        others = [x if isinstance(x, ASet) else ASet(self, self.iterate(x)) for x in args] if name not in (
            "add", "discard", "remove", "update", "intersection_update", "difference_update", "symmetric_difference_update", "clear", "pop") else []
        if name == "issubset":
            return all(others[0].has(v) for v in a.items)
        if name == "issuperset":
            return all(a.has(v) for v in others[0].items)
        if name == "isdisjoint":
            return not any(others[0].has(v) for v in a.items)
        if name == "intersection":
            return self.mkset([v for v in a.items if all(o.has(v) for o in others)])
        if name == "union":
            return self.mkset(list(a.items) + [v for o in others for v in o.items])
        if name == "difference":
            return self.mkset([v for v in a.items if not any(o.has(v) for o in others)])
        if name == "symmetric_difference":
            o = others[0]
            return self.mkset([v for v in a.items if not o.has(v)] + [v for v in o.items if not a.has(v)])
        if name == "copy":
            return self.mkset(a.items)
        if name == "add":
            if isinstance(obj, ASet):
                obj.add(args[0])
            else:
                if isinstance(args[0], (AObj, VTok)):
                    raise AnalysisError("adding abstract object to concrete set")
                obj.add(args[0])
            return None
        if name in ("update", "intersection_update", "difference_update", "symmetric_difference_update"):
            base = {"update": "union", "intersection_update": "intersection", "difference_update": "difference",
                    "symmetric_difference_update": "symmetric_difference"}[name]
            res = a
            for x in args:
                res = self.setmethod(res, base, [x])
                res = res if isinstance(res, ASet) else ASet(self, res)
            if isinstance(obj, ASet):
                obj.items = list(res.items)
            else:
                if any(isinstance(v, (AObj, VTok)) for v in res.items):
                    raise AnalysisError("adding abstract object to concrete set")
                obj.clear()
                obj.update(res.items)
            return None
        if name == "clear":
            if isinstance(obj, ASet):
                obj.items = []
            else:
                obj.clear()
            return None
        if name == "pop":
            if isinstance(obj, ASet):
                if not obj.items:
                    raise PyRaise(BuiltinExcValue(EXC["KeyError"], ("pop from an empty set",)))
                raise AnalysisError("set.pop() picks an arbitrary element")
            raise AnalysisError("set.pop() picks an arbitrary element")
        if name in ("discard", "remove"):
            if isinstance(obj, ASet):
                obj.items = [v for v in obj.items if not self.py_eq(v, args[0])]
            else:
                obj.discard(args[0])
            return None
        raise AnalysisError(f"set method {name}")

    # ------------------------------------------------------------------ builtins
    def _make_builtins(self):
        b = {k: ("builtin", k) for k in (
            "len", "isinstance", "tuple", "list", "iter", "zip", "enumerate", "any", "all", "map", "sorted",
            "max", "min", "sum", "str", "int", "range", "type", "set", "filter", "bool", "next", "hasattr",
            "reversed", "repr", "hash", "frozenset", "dict", "abs", "getattr", "callable", "id", "divmod",
            "issubclass", "float", "chr", "ord", "round", "pow", "print", "format", "setattr", "slice", "bin", "hex", "oct", "ascii")}
        b.update({"None": None, "True": True, "False": False, "NotImplemented": NotImplemented, "Ellipsis": Ellipsis, "__debug__": True,
                  "object": External("object"), "property": ("deco", "property")})
        b.update({k: v for k, v in EXC.items()})
        return b

    def b_len(self, x):
        if isinstance(x, AObj):
            r, _ = x.cls.lookup("__len__")
            if r is MISSING:
                if self._is_nt(x):
                    return len(self._nt_values(x))
                raise PyRaise(BuiltinExcValue(EXC["TypeError"], ("object has no len()", x.cls.name)))
            return self.call(Bound(r, x), [], {})
        if isinstance(x, AIter):
            raise PyRaise(BuiltinExcValue(EXC["TypeError"], ("len of iterator",)))
        if isinstance(x, ASet):
            return len(x.items)
        if isinstance(x, Sym):
            if hasattr(x, "sym_len"):
                return x.sym_len()
            raise AnalysisError(f"len() of symbolic {x!r}")
        if isinstance(x, (VTok, Native)) or x is None or isinstance(x, (int, bool)):
            raise PyRaise(BuiltinExcValue(EXC["TypeError"], ("len",)))
        return len(x)

    def b_isinstance(self, x, c):
        c = self.resolve(c)
        if isinstance(x, Sym) and getattr(x, "strict_isinstance", False):
            raise AnalysisError(f"isinstance() inspects the symbolic value {x!r}: the code is no longer parametric in it")
        if isinstance(c, tuple) and not (c and c[0] in ("builtin", "lazy")):
            return any(self.b_isinstance(x, y) for y in c)
        if isinstance(c, ClassInfo):
            return isinstance(x, AObj) and c in x.cls.mro
        if isinstance(c, tuple) and c[0] == "builtin":
            py = {"str": str, "tuple": tuple, "list": list, "set": (set, ASet), "int": int, "bool": bool,
                  "dict": dict, "frozenset": (frozenset, ASet)}.get(c[1])
            if py is None:
                raise AnalysisError(f"isinstance against builtin {c[1]}")
            return isinstance(x, py)
        if isinstance(c, External):
            if isinstance(x, AObj):
                return any(b is c for b in x.cls.mro)
            if c.name == "Version":
                return isinstance(x, VTok)
            if hasattr(x, "ext_class"):
                return x.ext_class == c.name
            return False
        raise AnalysisError(f"isinstance against {c!r}")

    def b_tuple(self, x=()):
        return tuple(self.iterate(x))

    def b_list(self, x=()):
        return list(self.iterate(x))

    def b_set(self, x=()):
        return self.mkset(self.iterate(x))

    def b_frozenset(self, x=()):
        return self.mkset(self.iterate(x))

    def b_hash(self, x):
        return self.py_hash(x)

    def py_hash(self, x):
        """Abstract hash: a structural key such that interpreted-equal values of the modelled kinds
        get equal keys iff the class's (generated or hand-written) __hash__ says so."""
        if isinstance(x, AObj):
            r, owner = x.cls.lookup("__hash__")
            if r is not MISSING and isinstance(r, Func):
                return self.call(Bound(r, x), [], {})   # user-defined __hash__: its value is the hash
            if self.is_absset(x):
                return ("set", frozenset(self.py_hash(v) for v in self.iterate(x)))
            dcs = [c for c in x.cls.mro if isinstance(c, ClassInfo) and c.dc is not None]
            if dcs and (dcs[0].dc.get("unsafe_hash") or (dcs[0].dc.get("frozen") and dcs[0].dc.get("eq", True))):
                flds = [f for f in x.cls.all_fields() if (f[3] if f[3] is not None else f[2])]
                return ("t", tuple(self.py_hash(x.f[f[0]]) for f in flds))   # dataclass __hash__ = hash(tuple of fields)
            if getattr(x.cls, "is_enum", False):
                return ("enum", x.cls.name, x.f["name"])
            return ("id", id(x))
        if isinstance(x, (tuple,)):
            return ("t", tuple(self.py_hash(v) for v in x))
        if isinstance(x, VTok):
            return ("v", x.rank)
        if isinstance(x, (list, dict, set, ASet)):
            raise PyRaise(BuiltinExcValue(EXC["TypeError"], ("unhashable",)))
        if isinstance(x, (ClassInfo, Func, External, Native, Sym)):
            return ("id", id(x))
        return ("c", x)

    def b_iter(self, x):
        return x if isinstance(x, AIter) else AIter(self.iterate(x))

    def b_next(self, it, default=MISSING):
        try:
            return next(self.b_iter(it))
        except StopIteration:
            if default is MISSING:
                raise PyRaise(BuiltinExcValue(EXC["StopIteration"], ()))
            return default

    def b_zip(self, *xs):
        return AIter(zip(*[self.iterate(x) for x in xs]))

    def b_enumerate(self, x, start=0):
        return AIter(enumerate(self.iterate(x), start))

    def b_any(self, x):
        return any(self.truth(v) for v in self.iterate(x))

    def b_all(self, x):
        return all(self.truth(v) for v in self.iterate(x))

    def b_map(self, f, *xs):
        return AIter(self.call(f, list(a), {}) for a in zip(*[self.iterate(x) for x in xs]))

    def b_filter(self, f, x):
        if f is None:
            return AIter(v for v in self.iterate(x) if self.truth(v))
        return AIter(v for v in self.iterate(x) if self.truth(self.call(f, [v], {})))

    def _lt(self, a, b):
        """interpreted a < b (used by sorted/min/max: they only use __lt__)."""
        if isinstance(a, tuple) and isinstance(b, tuple):
            for x, y in zip(a, b):
                if not self.py_eq(x, y):
                    return self._lt(x, y)
            return len(a) < len(b)
        return self.order(ast.Lt, a, b)

    def _sort(self, keyed, reverse):
        import functools
        def cmp(p, q):
            if self._lt(p[0], q[0]):
                return -1
            if self._lt(q[0], p[0]):
                return 1
            return 0
        return sorted(keyed, key=functools.cmp_to_key(cmp), reverse=reverse)

    def b_sorted(self, x, key=None, reverse=False):
        items = list(self.iterate(x))
        keyed = [((self.call(key, [v], {}) if key is not None else v), v) for v in items]
        return [v for _, v in self._sort(keyed, reverse)]

    def _minmax(self, fn, args, key, default):
        items = list(self.iterate(args[0])) if len(args) == 1 else list(args)
        if not items:
            if default is MISSING:
                raise PyRaise(BuiltinExcValue(EXC["ValueError"], ("empty",)))
            return default
        keys = [self.call(key, [v], {}) if key is not None else v for v in items]
        best = 0
        for i in range(1, len(items)):
            if fn is min:
                if self._lt(keys[i], keys[best]):
                    best = i
            else:
                if self._lt(keys[best], keys[i]):
                    best = i
        return items[best]

    def b_max(self, *args, key=None, default=MISSING):
        return self._minmax(max, args, key, default)

    def b_min(self, *args, key=None, default=MISSING):
        return self._minmax(min, args, key, default)

    def b_sum(self, x, start=0):
        for v in self.iterate(x):
            start = start + v
        return start

    def b_str(self, x=""):
        return self.to_str(x)

    def b_repr(self, x):
        return self.to_repr(x)

    def b_dict(self, x=(), **kw):
        d = {}
        for k, v in (x.items() if isinstance(x, dict) else [tuple(self.iterate(p)) for p in self.iterate(x)]):
            d[self.dkey(d, k)] = v
        d.update(kw)
        return d

    def b_abs(self, x):
        return abs(x)

    def b_divmod(self, a, b):
        return divmod(a, b)

    def b_callable(self, x):
        x = self.resolve(x)
        if isinstance(x, AObj):
            return x.cls.lookup("__call__")[0] is not MISSING
        if isinstance(x, tuple) and x and x[0] in ("builtin", "pymethod"):
            return True
        if isinstance(x, tuple) and x and x[0] == "lazy":
            return True
        return isinstance(x, (Func, Bound, ClassInfo, _Partial, _MemoWrap)) or callable(x)

    def b_id(self, x):
        return id(x)

    def b_getattr(self, obj, name, default=MISSING):
        try:
            return self.getattr(obj, name)
        except PyRaise as e:
            if default is not MISSING and isinstance(e.exc, BuiltinExcValue) and e.exc.cls is EXC["AttributeError"]:
                return default
            raise

    def b_int(self, x=0, base=MISSING):
        self._plain(x)
        try:
            return int(x) if base is MISSING else int(x, base)
        except ValueError:
            raise PyRaise(BuiltinExcValue(EXC["ValueError"], ("int", x)))

    def b_bool(self, x=False):
        return self.truth(x)

    def b_range(self, *a):
        return range(*a)

    def b_reversed(self, x):
        return AIter(reversed(list(self.iterate(x))))

    def b_type(self, x):
        if isinstance(x, AObj):
            return x.cls
        for nm, py in (("bool", bool), ("int", int), ("str", str), ("tuple", tuple), ("list", list), ("dict", dict), ("float", float)):
            if type(x) is py:
                return ("builtin", nm)
        if isinstance(x, (ASet, set)):
            return ("builtin", "set")
        if isinstance(x, frozenset):
            return ("builtin", "frozenset")
        raise AnalysisError("type() of non-object")

    def b_hasattr(self, x, name):
        if isinstance(x, AObj):
            return name in x.f or x.cls.lookup(name)[0] is not MISSING
        x = self.resolve(x)
        if isinstance(x, ClassInfo):
            return x.lookup(name)[0] is not MISSING
        if isinstance(x, (str, int, bool, tuple, list, dict, float, type(None))):
            return hasattr(x, name)
        raise AnalysisError("hasattr")

    def b_cast(self, t, v):
        return v

    def b_product(self, *xs):
        return AIter(itertools.product(*[self.iterate(x) for x in xs]))

    def b_permutations(self, x, r=None):
        return AIter(itertools.permutations(self.iterate(x), r))

    def b_combinations(self, x, r):
        return AIter(itertools.combinations(self.iterate(x), r))

    def b_chain(self, *xs):
        return AIter(v for x in xs for v in self.iterate(x))

    def b_islice(self, x, *a):
        return AIter(itertools.islice(self.iterate(x), *a))

    def b_zip_longest(self, *xs, fillvalue=None):
        return AIter(itertools.zip_longest(*[self.iterate(x) for x in xs], fillvalue=fillvalue))

    def b_dropwhile(self, f, x):
        items = list(self.iterate(x))
        i = 0
        while i < len(items) and self.truth(self.call(f, [items[i]], {})):
            i += 1
        return AIter(items[i:])

    def b_takewhile(self, f, x):
        out = []
        for v in self.iterate(x):
            if not self.truth(self.call(f, [v], {})):
                break
            out.append(v)
        return AIter(out)

    def b_reduce(self, f, x, init=MISSING):
        it = list(self.iterate(x))
        if init is MISSING:
            init, it = it[0], it[1:]
        for v in it:
            init = self.call(f, [init, v], {})
        return init

    def b_and_(self, a, b):
        return self.binop(ast.BitAnd(), a, b)

    def b_or_(self, a, b):
        return self.binop(ast.BitOr(), a, b)

    def b_op_eq(self, a, b):
        return self.py_eq(a, b)

    def b_op_ne(self, a, b):
        return not self.py_eq(a, b)

    def b_op_lt(self, a, b):
        return self.order(ast.Lt, a, b)

    def b_op_le(self, a, b):
        return self.order(ast.LtE, a, b)

    def b_op_gt(self, a, b):
        return self.order(ast.Gt, a, b)

    def b_op_ge(self, a, b):
        return self.order(ast.GtE, a, b)

    def b_object_setattr(self, obj, name, value):
        obj.f[name] = value

    def b_dc_replace(self, obj, **changes):
        kw = {f[0]: obj.f[f[0]] for f in obj.cls.all_fields() if f[4]}
        kw.update(changes)
        return self.construct(obj.cls, [], kw)

    # ---- further builtins / stdlib helpers (pure; callbacks go through the interpreter)
    def b_issubclass(self, c, d):
        c, d = self.resolve(c), self.resolve(d)
        if isinstance(d, tuple) and not (d and d[0] in ("builtin", "lazy")):
            return any(self.b_issubclass(c, x) for x in d)
        if isinstance(c, ClassInfo):
            return d in c.mro or any(self._ext_sub(b, d) for b in c.mro if isinstance(b, External))
        if isinstance(c, External) and isinstance(d, External):
            return self._ext_sub(c, d)
        if isinstance(c, tuple) and isinstance(d, tuple) and c[0] == d[0] == "builtin":
            return c[1] == d[1] or (c[1], d[1]) == ("bool", "int")
        raise AnalysisError(f"issubclass({c!r}, {d!r})")

    def _plain(self, *xs):
        if any(isinstance(x, (AObj, VTok, Sym, ASet)) for x in xs):
            raise AnalysisError("numeric/text builtin applied to an abstract value")

    def b_float(self, x=0.0):
        self._plain(x)
        return float(x)

    def b_chr(self, x):
        return chr(x)

    def b_ord(self, x):
        return ord(x)

    def b_round(self, x, n=None):
        self._plain(x)
        return round(x, n) if n is not None else round(x)

    def b_pow(self, *a):
        self._plain(*a)
        return pow(*a)

    def b_print(self, *a, **k):
        return None

    def b_format(self, x, spec=""):
        return format(self.to_str(x) if isinstance(x, (AObj, VTok)) else x, spec)

    def b_setattr(self, obj, name, value):
        if not isinstance(obj, AObj):
            raise AnalysisError("setattr on non-object")
        if obj.cls.dc and obj.cls.dc.get("frozen"):
            raise PyRaise(BuiltinExcValue(EXC["AttributeError"], ("frozen",)))
        obj.f[name] = value

    def b_slice(self, *a):
        return slice(*a)

    def b_bin(self, x):
        return bin(x)

    def b_hex(self, x):
        return hex(x)

    def b_oct(self, x):
        return oct(x)

    def b_ascii(self, x):
        self._plain(x)
        return ascii(x)

    def b_partial(self, f, *a, **k):
        return _Partial(f, a, k)

    def b_wraps(self, f, *a, **k):
        return lambda g: g

    def b_suppress(self, *excs):
        return _Suppress(excs)

    def b_itemgetter(self, *keys):
        def get(o):
            vals = [self.call(("builtin", "op_getitem"), [o, k], {}) for k in keys]
            return vals[0] if len(vals) == 1 else tuple(vals)
        return get

    def b_attrgetter(self, *names):
        def one(o, name):
            for part in name.split("."):
                o = self.getattr(o, part)
            return o
        def get(o):
            vals = [one(o, n) for n in names]
            return vals[0] if len(vals) == 1 else tuple(vals)
        return get

    def b_methodcaller(self, name, *a, **k):
        return lambda o: self.call(self.getattr(o, name), list(a), dict(k))

    def b_op_getitem(self, o, k):
        if isinstance(o, AObj):
            r, _ = o.cls.lookup("__getitem__")
            if r is MISSING:
                raise PyRaise(BuiltinExcValue(EXC["TypeError"], ("not subscriptable", o.cls.name)))
            return self.call(Bound(r, o), [k], {})
        if isinstance(o, dict):
            k = self.dkey(o, k)
        try:
            return o[k]
        except IndexError:
            raise PyRaise(BuiltinExcValue(EXC["IndexError"], ()))
        except KeyError:
            raise PyRaise(BuiltinExcValue(EXC["KeyError"], (k,)))

    def b_op_add(self, a, b):
        return self.binop(ast.Add(), a, b)

    def b_op_sub(self, a, b):
        return self.binop(ast.Sub(), a, b)

    def b_op_mul(self, a, b):
        return self.binop(ast.Mult(), a, b)

    def b_op_xor(self, a, b):
        return self.binop(ast.BitXor(), a, b)

    def b_op_not(self, a):
        return not self.truth(a)

    def b_op_truth(self, a):
        return self.truth(a)

    def b_op_contains(self, a, b):
        return self.contains(a, b)

    def b_op_is(self, a, b):
        return a is b

    def b_op_is_not(self, a, b):
        return a is not b

    def b_groupby(self, x, key=None):
        out = []
        for v in self.iterate(x):
            k = self.call(key, [v], {}) if key is not None else v
            if out and self.py_eq(out[-1][0], k):
                out[-1][1].append(v)
            else:
                out.append((k, [v]))
        return AIter((k, AIter(iter(g))) for k, g in out)

    def b_accumulate(self, x, func=None, initial=MISSING):
        out = []
        acc = initial
        for v in self.iterate(x):
            if acc is MISSING:
                acc = v
            else:
                acc = self.call(func, [acc, v], {}) if func is not None else self.binop(ast.Add(), acc, v)
                if not out and initial is not MISSING:
                    out.append(initial)
            out.append(acc)
        if initial is not MISSING and not out:
            out.append(initial)
        return AIter(iter(out))

    def b_repeat(self, v, n=MISSING):
        if n is MISSING:
            raise AnalysisError("unbounded itertools.repeat")
        return AIter(iter([v] * n))

    def b_starmap(self, f, x):
        return AIter(self.call(f, list(self.iterate(a)), {}) for a in self.iterate(x))

    def b_pairwise(self, x):
        items = list(self.iterate(x))
        return AIter(iter(list(zip(items, items[1:]))))

    def b_filterfalse(self, f, x):
        if f is None:
            return AIter(v for v in self.iterate(x) if not self.truth(v))
        return AIter(v for v in self.iterate(x) if not self.truth(self.call(f, [v], {})))

    def b_compress(self, x, sel):
        return AIter(v for v, c in zip(self.iterate(x), self.iterate(sel)) if self.truth(c))

    def b_chain_from_iterable(self, xs):
        return AIter(v for x in self.iterate(xs) for v in self.iterate(x))

    def b_defaultdict(self, factory=None, *a, **k):
        d = collections.defaultdict((lambda: self.call(factory, [], {})) if factory is not None else None)
        for kk, vv in self.b_dict(*a, **k).items():
            d[kk] = vv
        return d

    def b_deque(self, x=(), maxlen=None):
        return collections.deque(self.iterate(x), maxlen)

    def b_copy(self, x):
        if isinstance(x, AObj):
            o = AObj(x.cls)
            o.f = dict(x.f)
            return o
        if isinstance(x, ASet):
            return self.mkset(x.items)
        if isinstance(x, (list, dict, set)):
            return x.copy()
        return x

    def _re_sub(self, p, repl, s, count=0, flags=0):
        import re as _re
        if isinstance(p, Native):
            p = p.obj
        if not (isinstance(p, (str, _re.Pattern)) and isinstance(s, str)):
            raise AnalysisError("re.sub on non-text")
        if isinstance(repl, str):
            return _re.sub(p, repl, s, count, flags)
        return _re.sub(p, lambda mm: self.call(repl, [Native(mm)], {}), s, count, flags)

    def _bisect(self, a, x, lo, hi, key, right):
        a = a if isinstance(a, (list, tuple)) else list(self.iterate(a))
        hi = len(a) if hi is None else hi
        while lo < hi:
            mid = (lo + hi) // 2
            item = self.call(key, [a[mid]], {}) if key is not None else a[mid]
            if (not self._lt(x, item)) if right else self._lt(item, x):
                lo = mid + 1
            else:
                hi = mid
        return lo

    def b_bisect_left(self, a, x, lo=0, hi=None, key=None):
        return self._bisect(a, x, lo, hi, key, False)

    def b_bisect_right(self, a, x, lo=0, hi=None, key=None):
        return self._bisect(a, x, lo, hi, key, True)

    def b_insort_left(self, a, x, lo=0, hi=None, key=None):
        a.insert(self._bisect(a, self.call(key, [x], {}) if key is not None else x, lo, hi, key, False), x)

    def b_insort_right(self, a, x, lo=0, hi=None, key=None):
        a.insert(self._bisect(a, self.call(key, [x], {}) if key is not None else x, lo, hi, key, True), x)

    def b_mappingproxy(self, d):
        if not isinstance(d, dict):
            raise AnalysisError("MappingProxyType of a non-dict")
        return d        # read-only view: reads behave like the dict (writes through the proxy would be a TypeError in CPython)

    def b_noop(self, *a, **k):
        return None

    def b_field(self, **kw):
        raise AnalysisError("field() outside class body")


Interp._dispatch = {getattr(ast, k[2:]): v for k, v in vars(Interp).items() if k.startswith("e_")}
