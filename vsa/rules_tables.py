"""Table-agreement rules (RULES engine): operator tables extracted from source as data and compared with the
PEP 508 / Boolean-algebra tables of vsa/strdomain.py."""
from __future__ import annotations

import ast

from .rules_common import iter_sources
from .strdomain import COMPLEMENT, CONVERSE


def module_tree(chk, rel):
    for r, tree in iter_sources(chk):
        if r == rel:
            return tree
    chk.broken(f"module {rel} not found")


def const_dict(chk, tree, name, rel):
    """literal dict assigned to `name` at module or class level -> {key: value-node}"""
    for n in ast.walk(tree):
        tgt = None
        if isinstance(n, ast.Assign) and len(n.targets) == 1 and isinstance(n.targets[0], ast.Name):
            tgt, val = n.targets[0].id, n.value
        elif isinstance(n, ast.AnnAssign) and isinstance(n.target, ast.Name) and n.value is not None:
            tgt, val = n.target.id, n.value
        if tgt == name:
            if isinstance(val, ast.Dict):
                out = {}
                for k, v in zip(val.keys, val.values):
                    if not isinstance(k, ast.Constant):
                        chk.broken(f"{rel}:{name} has a non-literal key")
                    out[k.value] = v
                return out
            if isinstance(val, ast.DictComp) or isinstance(val, ast.Call):
                try:
                    lit = eval(compile(ast.Expression(val), "<table>", "eval"), {"__builtins__": {"dict": dict, "zip": zip}})
                    return {k: ast.Constant(v) for k, v in lit.items()}
                except Exception:
                    chk.broken(f"{rel}:{name} is not a literal table")
    chk.broken(f"anchor table {name} missing from {rel}")


ALL_OPS = ("<", "<=", ">", ">=", "==", "!=", "~=", "===", "in", "not in")


def probe_reflect_map(chk, it):
    """operator -> reflected operator, obtained by *calling* dep_logic.utils.get_reflect_op through the interpreter for every operator
    of the marker grammar (the private table behind it may be renamed, split or replaced by an if-chain without changing behaviour)."""
    from .absint import PyRaise, AnalysisError
    utils = it.module("dep_logic.utils")
    f = it.resolve(utils.ns.get("get_reflect_op"))
    if f is None:
        m = it.resolve(utils.ns.get("_op_reflect_map"))
        chk.require(isinstance(m, dict) and m, "anchor dep_logic.utils:get_reflect_op (and the table _op_reflect_map) missing")
        return dict(m)
    out = {}
    for op in ALL_OPS:
        try:
            out[op] = it.call(f, [op], {})
        except PyRaise:
            pass            # operator unknown to the table
    chk.require(out, "get_reflect_op answers for no operator of the marker grammar")
    return out


def reflect_map_involution(chk, rid):
    from .absint import Interp
    it = Interp(str(chk.src))
    m = probe_reflect_map(chk, it)
    chk.instance(rid)
    for k, v in m.items():
        if m.get(v) != k:
            chk.fail(rid, f"dep_logic.utils:_op_reflect_map[{k!r}]", f"_op_reflect_map is not an involution at {k!r}: {k!r} -> {v!r} -> {m.get(v)!r}")
        elif k in CONVERSE and CONVERSE[k] != v:
            chk.fail(rid, f"dep_logic.utils:_op_reflect_map[{k!r}]", f"_op_reflect_map[{k!r}] = {v!r}, but the converse of {k!r} is {CONVERSE[k]!r}")
        else:
            chk.ok(rid, key=k)
    for k in CONVERSE:
        if k not in m:
            chk.fail(rid, f"dep_logic.utils:_op_reflect_map[{k!r}]", f"_op_reflect_map lacks operator {k!r}")
    return m


def _returns_const(fn, value):
    for n in ast.walk(fn):
        if isinstance(n, ast.Return) and isinstance(n.value, ast.Constant) and n.value.value == value:
            return True
    return False


def marker_token_agreement(chk, rid):
    """EmptyMarker.__str__ -> '<empty>' <-> parse_marker's test; AnyMarker.__str__ -> '' <-> `not marker` / '*'."""
    def cls_method(rel, cname, mname):
        tree = module_tree(chk, rel)
        for c in tree.body:
            if isinstance(c, ast.ClassDef) and c.name == cname:
                for f in c.body:
                    if isinstance(f, ast.FunctionDef) and f.name == mname:
                        return f
        chk.broken(f"anchor {rel}:{cname}.{mname} missing")
    e = cls_method("markers/empty.py", "EmptyMarker", "__str__")
    a = cls_method("markers/any.py", "AnyMarker", "__str__")
    chk.instance(rid, 2)
    if not _returns_const(e, "<empty>"):
        chk.fail(rid, "dep_logic.markers.empty:EmptyMarker.__str__", "EmptyMarker does not render as '<empty>'")
    else:
        chk.ok(rid, key="empty-str")
    if not _returns_const(a, ""):
        chk.fail(rid, "dep_logic.markers.any:AnyMarker.__str__", "AnyMarker does not render as ''")
    else:
        chk.ok(rid, key="any-str")
    tree = module_tree(chk, "markers/__init__.py")
    pm = None
    for n in tree.body:
        if isinstance(n, ast.FunctionDef) and n.name == "parse_marker":
            pm = n
    chk.require(pm is not None, "anchor parse_marker missing")
    chk.instance(rid)
    # first statements: `if marker == "<empty>": return EmptyMarker()` and `if not marker or marker == "*": return AnyMarker()`
    found_empty = found_any = False
    for st in pm.body:
        if isinstance(st, ast.If) and st.body and isinstance(st.body[0], ast.Return):
            rv = st.body[0].value
            cname = rv.func.id if isinstance(rv, ast.Call) and isinstance(rv.func, ast.Name) else None
            consts = {c.value for c in ast.walk(st.test) if isinstance(c, ast.Constant)}
            if cname == "EmptyMarker" and "<empty>" in consts:
                found_empty = True
            if cname == "AnyMarker" and any(isinstance(x, ast.UnaryOp) and isinstance(x.op, ast.Not) for x in ast.walk(st.test)):
                found_any = True
        if isinstance(st, ast.Try):
            break
    if not found_empty:
        chk.fail(rid, "dep_logic.markers:parse_marker:<empty>", "parse_marker does not map '<empty>' to EmptyMarker() before calling the PEP 508 parser")
    else:
        chk.ok(rid, key="parse-empty")
    if not found_any:
        chk.fail(rid, "dep_logic.markers:parse_marker:''", "parse_marker does not map the empty string to AnyMarker() before calling the PEP 508 parser")
    else:
        chk.ok(rid, key="parse-any")
