"""CLI of the static checks: ./check <Cxx> [--repo DIR] [--tier quick|thorough] [--replay FILE]."""
from __future__ import annotations

import argparse
import importlib
import os
import pathlib
import sys
import traceback

sys.path.insert(0, str(pathlib.Path(__file__).resolve().parent.parent))
sys.setrecursionlimit(20000)

from vsa.report import AnalysisBroken, Check  # noqa: E402
from vsa.absint import AnalysisError  # noqa: E402


def main(argv=None):
    ap = argparse.ArgumentParser()
    ap.add_argument("pid")
    ap.add_argument("--repo", default=os.environ.get("VERIF_REPO", "/repo"))
    ap.add_argument("--tier", default=os.environ.get("VERIF_TIER", "quick") or "quick")
    ap.add_argument("--replay", default=None)
    ap.add_argument("--jobs", type=int, default=int(os.environ.get("VERIF_JOBS", "0")) or (os.cpu_count() or 1))
    a = ap.parse_args(argv)
    tier = a.tier if a.tier in ("quick", "thorough") else "quick"
    try:
        seed = int(os.environ.get("VERIF_SEED", "0") or 0)
    except ValueError:
        seed = 0
    pid = a.pid.upper()
    try:
        mod = importlib.import_module(f"vsa.props.{pid.lower()}")
    except ModuleNotFoundError:
        print(f"ANALYSIS-ERROR property={pid}: no check registered for this property")
        return 2
    if a.replay:
        try:
            print("REPLAY of recorded violation:", pathlib.Path(a.replay).read_text()[:2000])
        except OSError as e:
            print(f"(replay file unreadable: {e})")
        print("re-deriving the obligation by re-running the check on the current tree:")
    chk = Check(pid, tier=tier, seed=seed, repo=a.repo, replay=a.replay)
    chk.jobs = max(1, a.jobs)
    try:
        mod.run(chk)
        return chk.finish()
    except (AnalysisBroken, AnalysisError) as e:
        print(f"ANALYSIS-ERROR property={pid}: {e}")
        return 2
    except BaseException as e:  # checker bug: fail closed, never masquerade as a violation
        if isinstance(e, (KeyboardInterrupt, SystemExit)):
            raise
        traceback.print_exc()
        print(f"ANALYSIS-ERROR property={pid}: checker exception {type(e).__name__}: {e}")
        return 2


if __name__ == "__main__":
    sys.exit(main())
