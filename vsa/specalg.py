"""Shared ABSINT domain for the version-specifier algebra (C01, C05, C14; DESIGN.md §4).

Operands: every canonical specifier over K opaque, totally ordered version tokens (empty, the two
spellings of the universal set, every range incl. point ranges, every union of >= 2 separated
ranges).  Oracle: membership vectors on the doubled line of 2K+1 points (below all tokens, each
token, each gap, above all tokens).  All operator applications go through the interpreter's model
of Python's binary-operator protocol over the *current source* of /repo.
"""
from __future__ import annotations

import ast
import itertools
import multiprocessing
import os

from .absint import AObj, AnalysisError, Bound, Interp, PyRaise, VTok, MISSING

AND, OR = ast.BitAnd(), ast.BitOr()

SLICE_ANCHORS = {
    "dep_logic.specifiers.range": ("RangeSpecifier", [
        "allows_lower", "allows_higher", "is_strictly_lower", "is_adjacent_to", "is_superset",
        "is_any", "__and__", "__or__", "__invert__"]),
    "dep_logic.specifiers.union": ("UnionSpecifier", ["_from_ranges", "__and__", "__or__", "__invert__"]),
    "dep_logic.specifiers.special": ("EmptySpecifier", ["__and__", "__or__", "__invert__", "is_empty"]),
}


class ShapeError(Exception):
    pass


def _twin(text):
    """the same PEP 440 version with one more trailing zero release segment: 1.0 -> 1.0.0, 2.0a1 -> 2.0.0a1, 1!0.5 -> 1!0.5.0"""
    import re
    m = re.match(r"^((?:\d+!)?\d+(?:\.\d+)*)(.*)$", text)
    return m.group(1) + ".0" + m.group(2)


ACTIVE_POOL = None   # None = opaque order-only tokens; else a tuple of version texts (fallback domain)
# pools of concrete versions for the fallback domain; the first K (sorted) are used.  Each pool packs the coincidences a
# shape-dependent comparison could key on: same release with dev/pre/final/post, trailing zeros, digit growth, epochs.
FALLBACK_POOLS = [("2.0.dev1", "2.0a1", "2.0", "2.0.post1", "2.1"), ("1.0", "1.0.0.1", "1.0.1", "1.1", "2"), ("1.9", "1.10", "1!0.5", "1!0.5.1", "2!0"),
                  ("1.5.dev0", "1.5", "1.5.post0", "1.6rc1", "1.6")]


class SpecDomain:
    def __init__(self, src, K, pool=None):
        self.K = K
        self.it = it = Interp(src)
        it.max_steps = None
        self.pool = pool
        if pool is not None:
            from . import pkgmodel
            pkgmodel.install(it)
        try:
            sp = it.module("dep_logic.specifiers.special")
            rg = it.module("dep_logic.specifiers.range")
            un = it.module("dep_logic.specifiers.union")
        except (OSError, SyntaxError) as e:
            raise AnalysisError(f"cannot load specifier modules: {e}")
        for name, mod in (("EmptySpecifier", sp), ("AnySpecifier", sp), ("RangeSpecifier", rg), ("UnionSpecifier", un)):
            if name not in mod.ns:
                raise AnalysisError(f"anchor class {name} missing from {mod.name}")
        self.Empty, self.Any = sp.ns["EmptySpecifier"], sp.ns["AnySpecifier"]
        self.Range, self.Union = rg.ns["RangeSpecifier"], un.ns["UnionSpecifier"]
        self.classes = (self.Empty, self.Any, self.Range, self.Union)
        if pool is None:
            self.V = [VTok(i) for i in range(K)]
        else:
            from . import pkgmodel
            vs = sorted((pkgmodel.Version(t) for t in pool), key=lambda v: v.rank)
            if len(vs) < K:
                raise AnalysisError(f"fallback pool too small for K={K}")
            self.V = vs[:K]
        self._ix = {id(v): i for i, v in enumerate(self.V)}
        self._ixr = {repr(v.rank): i for i, v in enumerate(self.V)}
        self.NPTS = 2 * K + 1
        self.vecs = list(itertools.product((False, True), repeat=self.NPTS))
        self.objs = {v: self.build_from_vec(v) for v in self.vecs}
        self.full = (True,) * self.NPTS
        self.none = (False,) * self.NPTS
        self.anyspec = it.construct(self.Any, [], {})
        # operand list: (label, vec, obj)
        self.operands = [(self.show(self.objs[v]), v, self.objs[v]) for v in self.vecs]
        self.operands.append(("AnySpecifier()", self.full, self.anyspec))
        if pool is not None:
            # twins: the same versions spelled with an extra trailing ".0" release segment (equal under PEP 440, different text /
            # release tuple) — operands built from them must behave exactly like the primary ones
            from . import pkgmodel
            self.V2 = [pkgmodel.Version(_twin(v.vstr())) for v in self.V]
            for v in self.vecs:
                if v not in (self.full, self.none):
                    o = self.build_from_vec(v, self.V2)
                    self.operands.append((self.show(o), v, o))

    def ix(self, tok):
        """position of a bound token in the domain's total order"""
        i = self._ix.get(id(tok))
        if i is None:
            i = self._ixr.get(repr(tok.rank))
        if i is None:
            raise ShapeError(f"bound {tok!r} is not one of the domain's versions")
        return i

    # ---------------------------------------------------------------- oracle side
    def pts_of_range(self, lo, hi, il, ih):
        out = []
        for p in range(self.NPTS):
            ok = True
            if lo is not None:
                c = 2 * lo + 1
                ok = ok and (p > c or (p == c and il))
            if hi is not None:
                c = 2 * hi + 1
                ok = ok and (p < c or (p == c and ih))
            out.append(ok)
        return tuple(out)

    def denote(self, s):
        if not isinstance(s, AObj):
            raise ShapeError(f"result is not a specifier object: {s!r}")
        if s.cls is self.Empty:
            return self.none
        if s.cls is self.Any:
            return self.full
        if s.cls is self.Range:
            lo, hi = s.f.get("min"), s.f.get("max")
            for b in (lo, hi):
                if b is not None and not isinstance(b, VTok):
                    raise ShapeError(f"range bound is not a version: {b!r}")
            il, ih = s.f.get("include_min"), s.f.get("include_max")
            if not isinstance(il, bool) or not isinstance(ih, bool):
                raise ShapeError(f"range inclusivity flags are not booleans: {il!r}, {ih!r}")
            return self.pts_of_range(None if lo is None else self.ix(lo), None if hi is None else self.ix(hi), il, ih)
        if s.cls is self.Union:
            rs = s.f.get("ranges")
            if not isinstance(rs, (tuple, list)) or not rs:
                raise ShapeError(f"union without ranges: {rs!r}")
            vecs = [self.denote(r) for r in rs]
            return tuple(any(c) for c in zip(*vecs))
        raise ShapeError(f"unexpected result class {s.cls.name}")

    def canonical(self, s):
        """C05 shape: empty | one non-degenerate range | >=2 ascending, separated, non-universal ranges."""
        if s.cls is self.Empty:
            return None
        if s.cls is self.Any:
            return None
        if s.cls is self.Range:
            lo, hi = s.f["min"], s.f["max"]
            if lo is not None and hi is not None:
                if self.ix(lo) > self.ix(hi):
                    return "range with min > max"
                if self.ix(lo) == self.ix(hi) and not (s.f["include_min"] and s.f["include_max"]):
                    return "degenerate (empty) point range"
            return None
        if s.cls is self.Union:
            rs = s.f["ranges"]
            if not isinstance(rs, tuple):
                return "union ranges not a tuple"
            if len(rs) < 2:
                return f"union of {len(rs)} range(s)"
            for r in rs:
                if not isinstance(r, AObj) or r.cls is not self.Range:
                    return "union member is not a RangeSpecifier"
                c = self.canonical(r)
                if c:
                    return "union member: " + c
                if r.f["min"] is None and r.f["max"] is None:
                    return "universal range inside a union"
            for a, b in zip(rs, rs[1:]):
                if a.f["max"] is None or b.f["min"] is None:
                    return "unbounded range not at the end of a union"
                am, bm = self.ix(a.f["max"]), self.ix(b.f["min"])
                if not (am < bm or (am == bm and not a.f["include_max"] and not b.f["include_min"])):
                    return "union members overlapping, touching or out of order"
            return None
        return f"unexpected class {s.cls.name}"

    def build_from_vec(self, vec, toks=None):
        """canonical object for a membership vector, built through the interpreted constructors."""
        it = self.it
        V = toks or self.V
        runs, p = [], 0
        while p < self.NPTS:
            if vec[p]:
                q = p
                while q + 1 < self.NPTS and vec[q + 1]:
                    q += 1
                runs.append((p, q))
                p = q + 1
            else:
                p += 1
        if not runs:
            return it.construct(self.Empty, [], {})
        rs = []
        for p, q in runs:
            kw = {}
            if p > 0:
                if p % 2 == 1:
                    kw.update(min=V[(p - 1) // 2], include_min=True)
                else:
                    kw.update(min=V[p // 2 - 1], include_min=False)
            if q < self.NPTS - 1:
                if q % 2 == 1:
                    kw.update(max=V[(q - 1) // 2], include_max=True)
                else:
                    kw.update(max=V[q // 2], include_max=False)
            rs.append(it.construct(self.Range, [], kw))
        if len(rs) == 1:
            return rs[0]
        return it.construct(self.Union, [tuple(rs)], {})

    # ---------------------------------------------------------------- code side
    def show(self, s):
        if not isinstance(s, AObj):
            return repr(s)
        if s.cls is self.Empty:
            return "<empty>"
        if s.cls is self.Any:
            return "AnySpecifier()"
        if s.cls is self.Range:
            lo, hi = s.f.get("min"), s.f.get("max")
            l = "(-inf" if lo is None else ("[" if s.f.get("include_min") else "(") + self._tok(lo)
            h = "+inf)" if hi is None else self._tok(hi) + ("]" if s.f.get("include_max") else ")")
            return f"{l},{h}"
        if s.cls is self.Union:
            rs = s.f.get("ranges")
            try:
                return "U{" + " ".join(self.show(r) for r in rs) + "}"
            except TypeError:
                return f"U{{{rs!r}}}"
        return repr(s)

    def _tok(self, v):
        return v.vstr() if hasattr(v, "vstr") else repr(v)

    def apply(self, opname, a, b=None):
        """-> ("ok", obj, path) | ("raise", exc, path)"""
        it = self.it
        it.trace.clear()
        try:
            if opname == "&":
                r = it.binop(AND, a, b)
            elif opname == "|":
                r = it.binop(OR, a, b)
            elif opname == "~":
                f, _ = a.cls.lookup("__invert__")
                if f is MISSING:
                    raise PyRaise(("TypeError", "no __invert__"))
                r = it.call(Bound(f, a), [], {})
            else:
                raise AssertionError(opname)
        except PyRaise as e:
            return "raise", e.exc, self.path()
        return "ok", r, self.path()

    def path(self):
        return [f"{fn.split(':')[-1]}@L{ln}={'T' if c is True else 'F' if c is False else c}" for fn, ln, c in self.it.trace[-14:]]

    def blame(self, default):
        """function in which the last branch decision was taken (deepest decision before the result)."""
        if self.it.trace:
            return self.it.trace[-1][0]
        return default

    def dispatch_name(self, opname, a, b=None):
        m = {"&": "__and__", "|": "__or__", "~": "__invert__"}[opname]
        return f"{a.cls.module.name}:{a.cls.name}.{m}"

    def method(self, obj, name):
        f, _ = obj.cls.lookup(name)
        if f is MISSING:
            raise PyRaise(("AttributeError", name))
        return self.it.call(Bound(f, obj), [], {})


_DOM = {}


def get_domain(src, K):
    key = (str(src), K, os.getpid(), ACTIVE_POOL)
    if key not in _DOM:
        _DOM[key] = SpecDomain(src, K, ACTIVE_POOL)
    return _DOM[key]


def with_fallback(chk, body):
    """Run `body(chk)` on opaque order-only tokens; if the slice turns out not to be order-parametric any more (the
    interpreter aborts on a non-comparison use of a version token), re-run it on concrete PEP 440 versions of mixed
    shapes (pkgmodel) so that the check still gives a verdict instead of an analysis error."""
    global ACTIVE_POOL
    ACTIVE_POOL = None
    try:
        body(chk)
        return
    except AnalysisError as e:
        if "version token" not in str(e):
            raise
        why = str(e)
    note = (f"order-only lemma does NOT hold on this tree ({why}); the slice was re-analysed on concrete PEP 440 versions of mixed shapes "
            f"{FALLBACK_POOLS} (complete only for those pools)")
    try:
        for pool in FALLBACK_POOLS:
            chk.reset()
            ACTIVE_POOL = tuple(pool)
            body(chk)
            if chk.violations:
                break
    finally:
        ACTIVE_POOL = None
    chk.notes.append(note)
    chk.assumptions.append("fallback domain: concrete version pools instead of opaque tokens; completeness over order types is lost")


def parallel(fn, tasks, jobs):
    """map fn over tasks in forked workers (each builds its own domain from source)."""
    if jobs <= 1 or len(tasks) <= 1:
        return [fn(t) for t in tasks]
    ctx = multiprocessing.get_context("fork")
    with ctx.Pool(min(jobs, len(tasks))) as pool:
        return pool.map(fn, tasks, chunksize=1)


def shards(n, jobs, per_job=4):
    k = max(1, min(n, jobs * per_job))
    step = (n + k - 1) // k
    return [(i, min(n, i + step)) for i in range(0, n, step)]


def check_anchors(chk, dom):
    """R01.1: the slice functions exist (vanished anchor => analysis broken, never a silent pass)."""
    it = dom.it
    for modname, (clsname, meths) in SLICE_ANCHORS.items():
        cls = it.module(modname).ns.get(clsname)
        chk.require(cls is not None, f"anchor class {clsname} missing")
        for mname in meths:
            f, _ = cls.lookup(mname)
            if mname.startswith("__"):
                chk.require(f is not MISSING, f"anchor {clsname}.{mname} missing from {modname}")      # the operators are the public surface
            elif f is MISSING:
                chk.notes.append(f"R01.1: helper {clsname}.{mname} no longer exists (renamed / inlined); the operators are explored all the same")
