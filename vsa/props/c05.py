"""C05 — results are canonical; ==, is_empty(), is_any() are exact (DESIGN.md §4 C05).

  R05.1 every result of &, |, ~ is empty, one non-degenerate range, or >= 2 ascending separated ranges.
  R05.2 interpreted == between a result and the canonical representative of the same set is True (both
        directions) and False against the representative of every other set (checked per result against
        all representatives of sets differing in exactly one point and a stride of the others).
  R05.3 result.is_empty() <=> denotation is empty; result.is_any() <=> denotation is everything; and
        is_empty/is_any are overridden only by the classes that denote those sets (class-table fact).
"""
from __future__ import annotations

from ..absint import AObj, Bound, ClassInfo, Func, MISSING, PyRaise
from ..specalg import ShapeError, check_anchors, get_domain, parallel, shards


def _truth(dom, v):
    return dom.it.truth(v)


def _work(task):
    src, K, lo, hi = task
    dom = get_domain(src, K)
    it = dom.it
    ops = dom.operands
    fails, n, nontriv, samples = [], 0, 0, []
    reps = dom.objs
    vecs = dom.vecs

    def judge(opn, la, lb, a, b, kind, r, path, exp):
        nonlocal n
        disp = dom.dispatch_name(opn, a, b)
        expr = f"~{la}" if opn == "~" else f"{la} {opn} {lb}"
        if kind == "raise":
            return  # C01's R01.3
        try:
            got = dom.denote(r)
        except ShapeError as e:
            fails.append(("R05.1", dom.blame(disp), f"{expr} returns a malformed object: {e}", {"expr": expr, "path": path}))
            return
        why = dom.canonical(r)
        n += 1
        if why:
            fails.append(("R05.1", dom.blame(disp), f"{expr} -> {dom.show(r)} is not canonical: {why}",
                          {"expr": expr, "result": dom.show(r), "path": path}))
        # R05.3 observers on the result (its denotation `got`, not the expected one: exactness is C01's)
        try:
            n += 2
            ie = _truth(dom, dom.method(r, "is_empty"))
            ia = _truth(dom, dom.method(r, "is_any"))
            if ie != (got == dom.none):
                fails.append(("R05.3", f"{r.cls.module.name}:{r.cls.name}.is_empty", f"({expr}).is_empty() is {ie} but the result {dom.show(r)} "
                              f"{'is' if got == dom.none else 'is not'} empty", {"expr": expr, "path": path}))
            if ia != (got == dom.full):
                fails.append(("R05.3", f"{r.cls.module.name}:{r.cls.name}.is_any", f"({expr}).is_any() is {ia} but the result {dom.show(r)} "
                              f"{'is' if got == dom.full else 'is not'} universal", {"expr": expr, "path": path}))
        except PyRaise as e:
            fails.append(("R05.3", disp, f"is_empty()/is_any() raises on {dom.show(r)}: {e.exc!r}", {"expr": expr}))
        # R05.2 equality against representatives
        if why:
            return
        try:
            same = reps[got]
            n += 2
            if not it.py_eq(r, same) or not it.py_eq(same, r):
                fails.append(("R05.2", f"{r.cls.module.name}:{r.cls.name}.__eq__", f"{expr} -> {dom.show(r)} does not compare equal to the canonical {dom.show(same)}",
                              {"expr": expr, "path": path}))
            if got == dom.full:
                n += 2
                if not it.py_eq(r, dom.anyspec) or not it.py_eq(dom.anyspec, r):
                    fails.append(("R05.2", f"{dom.Any.module.name}:AnySpecifier.__eq__", f"{expr} -> {dom.show(r)} (universal) != AnySpecifier()", {"expr": expr}))
            # neighbours: every set differing in exactly one point must compare unequal
            for p in range(dom.NPTS):
                v2 = got[:p] + (not got[p],) + got[p + 1:]
                n += 1
                if it.py_eq(r, reps[v2]) or it.py_eq(reps[v2], r):
                    fails.append(("R05.2", f"{r.cls.module.name}:{r.cls.name}.__eq__", f"{dom.show(r)} compares equal to the different set {dom.show(reps[v2])}",
                                  {"expr": expr}))
        except PyRaise as e:
            fails.append(("R05.2", disp, f"== raises on {dom.show(r)}: {e.exc!r}", {"expr": expr}))

    for i in range(lo, hi):
        la, va, a = ops[i]
        kind, r, path = dom.apply("~", a)
        judge("~", la, None, a, None, kind, r, path, tuple(not x for x in va))
        for lb, vb, b in ops:
            for opn, comb in (("&", lambda x, y: x and y), ("|", lambda x, y: x or y)):
                kind, r, path = dom.apply(opn, a, b)
                exp = tuple(comb(x, y) for x, y in zip(va, vb))
                judge(opn, la, lb, a, b, kind, r, path, exp)
                if va != vb and va not in (dom.full, dom.none) and vb not in (dom.full, dom.none):
                    nontriv += 1
                    if len(samples) < 1 and kind == "ok" and i % 9 == 4:
                        samples.append({"op": opn, "a": la, "b": lb, "result": dom.show(r),
                                        "canonical": dom.canonical(r) is None})
    return {"n": n, "nontriv": nontriv, "fails": fails, "samples": samples}


def _eq_matrix(task):
    """R05.2 (complete at this K): == between every pair of canonical representatives is the identity relation."""
    src, K, lo, hi = task
    dom = get_domain(src, K)
    it = dom.it
    fails, n = [], 0
    ops = dom.operands
    for i in range(lo, hi):
        la, va, a = ops[i]
        for lb, vb, b in ops:
            n += 1
            try:
                e = it.py_eq(a, b)
            except PyRaise as ex:
                fails.append(("R05.2", f"{a.cls.module.name}:{a.cls.name}.__eq__", f"{la} == {lb} raises {ex.exc!r}", None))
                continue
            if e != (va == vb):
                fails.append(("R05.2", f"{a.cls.module.name}:{a.cls.name}.__eq__",
                              f"{la} == {lb} is {e}, but the sets are {'equal' if va == vb else 'different'}", None))
    return {"n": n, "fails": fails}


def class_table(chk, dom):
    """R05.3 class-table fact: which specifier classes override is_empty / is_any, and what they return."""
    it = dom.it
    base = it.module("dep_logic.specifiers.base").ns.get("BaseSpecifier")
    chk.require(base is not None, "anchor BaseSpecifier missing")
    for name, const_cls in (("is_empty", {"EmptySpecifier"}), ("is_any", {"AnySpecifier", "RangeSpecifier"})):
        for cls in dom.classes:
            f, owner = cls.lookup(name)
            chk.require(f is not MISSING, f"{cls.name}.{name} unresolved")
            chk.instance("R05.3")
            overriding = owner is not base
            if overriding != (cls.name in const_cls):
                chk.fail("R05.3", f"{cls.module.name}:{cls.name}.{name}",
                         f"{cls.name} {'overrides' if overriding else 'does not override'} {name}() — "
                         f"expected overriding classes: {sorted(const_cls)}")
            else:
                chk.ok("R05.3", key=(cls.name, name))


PARSE_TEXTS = [">=2,<1", ">1,<1", ">=1,<=1", "==1.0,!=1.0", "!=1.0,!=1.0", "<1||>=1", "<=1||>=1", "<1||>1", ">=1,<2||>=2,<3", ">=1,<2||>2,<3",
               "<1||<2", ">=3||>=1,<2", "==1.*||==2.*", "!=1.*,!=2.*", "~=1.4,!=1.5.*", "<empty>||<empty>", "||", ">=1||<empty>", "==1.0||==1.0.0",
               ">=1.0,>=1.0.0", ">=1,<2,>=1.5", "<2||>=1.5,<3||>=2.5", ">1||>=1", "<=1||<1", "!=1||==1", "==1.5||!=1.5", ">=1,<2||>=2", "<3,>=1||<1",
               "~=1.4||~=1.5", "==1.4.*||==1.5.*||==1.6.*", ">=1!0||<1!0", "<1.0a1||>=1.0a1",
               ">=2,<1,!=1.5", "==1.0,==2.0,!=1.0.*", "<1,>=2,~=3.1", ">=1,<=1,!=1", "<1||>=2,<3||>=3", "<=1||>=2,<3||>=4", "<1||>1,<2||>2,<3||>3",
               # equal-as-versions but differently spelled operands parsed one after the other (an equality-keyed memo must not mix them up;
               # the interpreter models functools.lru_cache / cache)
               "!=1.*", "!=1.0.*", "==1.*", "==1.0.*", "~=1.4", "~=1.4.0", "!=2.0.*", "!=2.*", "==3.0.0.*", "==3.*", "~=2.0.0", "~=2.0", ">=1.0", ">=1.0.0",
               "!=1.5.0", "!=1.5", "==1.4.0", "==1.4"]
# structured family: every pair of clauses over one or two bound values (incl. the two spellings of one version), exhaustively
_OPS2 = (">", ">=", "<", "<=", "==", "!=", "~=")
for _a, _b in (("1.0", "1.0"), ("1.0", "1.0.0"), ("1.0", "2.0"), ("2.0", "1.0"), ("1.4", "1.5")):
    for _o1 in _OPS2:
        for _o2 in _OPS2:
            _t = f"{_o1}{_a},{_o2}{_b}"
            if _t not in PARSE_TEXTS:
                PARSE_TEXTS.append(_t)
PARSE_CANDS = ["0.5", "1", "1.0.1", "1.4", "1.4.5", "1.5", "1.5.3", "1.6", "1.9", "2", "2.5", "2.7", "3", "4", "1!0", "1!1"]


def parsed_results(chk):
    """R05.4: results of *parsing* (comma sets are folded with &, `||` alternatives with |) are canonical and exact."""
    from ..verdomain import VerDomain
    from .. import pkgmodel
    d = VerDomain(str(chk.src))

    def canon(s):
        if s.cls in (d.Empty, d.Any):
            return None
        if s.cls is d.Range:
            lo, hi = s.f["min"], s.f["max"]
            if lo is not None and hi is not None:
                if lo.rank > hi.rank:
                    return "range with min > max"
                if lo.rank == hi.rank and not (s.f["include_min"] and s.f["include_max"]):
                    return "degenerate point range"
            return None
        if s.cls is d.Union:
            rs = s.f["ranges"]
            if len(rs) < 2:
                return f"union of {len(rs)} range(s)"
            for r in rs:
                if r.cls is not d.Range or canon(r) or (r.f["min"] is None and r.f["max"] is None):
                    return "bad union member"
            for a, b in zip(rs, rs[1:]):
                if a.f["max"] is None or b.f["min"] is None:
                    return "unbounded member inside a union"
                am, bm = a.f["max"].rank, b.f["min"].rank
                if not (am < bm or (am == bm and not a.f["include_max"] and not b.f["include_min"])):
                    return "members overlapping, touching or unordered"
            return None
        return f"unexpected class {s.cls.name}"

    def member(s, v):
        if s.cls is d.Empty:
            return False
        if s.cls is d.Any:
            return True
        if s.cls is d.Range:
            lo, hi = s.f["min"], s.f["max"]
            okl = lo is None or v.rank > lo.rank or (v.rank == lo.rank and s.f["include_min"])
            okh = hi is None or v.rank < hi.rank or (v.rank == hi.rank and s.f["include_max"])
            return okl and okh
        return any(member(r, v) for r in s.f["ranges"])

    def oracle(text, v):
        if text == "<empty>":
            return False
        if "||" in text:
            return any(oracle(t, v) for t in text.split("||"))
        return pkgmodel.SpecifierSetVal(text).sym_contains(v)
    FN = "dep_logic.specifiers:parse_version_specifier"
    for t in PARSE_TEXTS:
        chk.instance("R05.4")
        try:
            r = d.parse(t)
        except PyRaise as e:
            chk.fail("R05.4", f"{FN}:raises", f"parse_version_specifier({t!r}) raises {d.exc_name(e)}")
            continue
        why = canon(r)
        if why:
            chk.fail("R05.4", d.blame(FN) + ":non-canonical", f"parse_version_specifier({t!r}) -> {d.show(r)} is not canonical: {why}", {"path": d.path()})
            continue
        vs = [d.V(c) for c in PARSE_CANDS]
        got = [member(r, v) for v in vs]
        exp = [oracle(t, v) for v in vs]
        if got != exp:
            i = next(i for i in range(len(vs)) if got[i] != exp[i])
            chk.fail("R05.4", d.blame(FN) + ":inexact", f"parse_version_specifier({t!r}) -> {d.show(r)}: {PARSE_CANDS[i]} is "
                     f"{'admitted' if got[i] else 'rejected'} structurally but PEP 440 says the opposite", {"path": d.path()})
            continue
        ie = d.it.truth(d.it.call(Bound(r.cls.lookup("is_empty")[0], r), [], {}))
        ia = d.it.truth(d.it.call(Bound(r.cls.lookup("is_any")[0], r), [], {}))
        if ie != (not any(exp) and r.cls is d.Empty) or (ia and not all(exp)):
            chk.fail("R05.4", FN + ":is_empty/is_any", f"parse_version_specifier({t!r}) -> {d.show(r)} reports is_empty={ie}, is_any={ia}")
        else:
            chk.ok("R05.4", key=t)


def run(chk):
    from ..specalg import with_fallback
    with_fallback(chk, _run)


def _run(chk):
    K = 3 if chk.tier == "quick" else 4
    src = str(chk.src)
    chk.explanation = (
        "Exhaustive ABSINT of the specifier operators over all ordered operand pairs with <= K distinct bound tokens: "
        "every result must be in canonical shape, compare equal (interpreted __eq__, both directions) to the canonical "
        "representative of its set and unequal to every one-point neighbour, and report is_empty()/is_any() exactly. "
        f"K={K}.")
    chk.rule("R05.1", "canonical shape of every result")
    chk.rule("R05.2", "== is exactly set equality on results and representatives")
    chk.rule("R05.3", "is_empty()/is_any() exact on results; overriding classes as expected", min_instances=8)
    dom = get_domain(src, K)
    check_anchors(chk, dom)
    class_table(chk, dom)
    chk.rule("R05.4", "results of parsing (comma sets folded with &, || with |) are canonical and exact", min_instances=30)
    parsed_results(chk)
    n_ops = len(dom.operands)
    tasks = [(src, K, lo, hi) for lo, hi in shards(n_ops, chk.jobs)]
    total = nontriv = nfail = 0
    for fn in (_work, _eq_matrix):
        for r in parallel(fn, tasks, chk.jobs):
            total += r["n"]
            nontriv += r.get("nontriv", 0)
            for rid, construct, what, detail in r["fails"]:
                nfail += 1
                chk.fail(rid, construct, what, detail)
            for s in r.get("samples", []):
                chk.sample(s)
    good = max(0, total - nfail)
    chk.obligations += good
    chk.discharged += good
    chk.evaluations += good
    chk.rules["R05.1"]["instances"] += total
    chk.rules["R05.2"]["instances"] += total
    chk.nontrivial.update(("R05", i) for i in range(nontriv))
    chk.exhaustive = True
    chk.analysed = {"K": K, "operands": n_ops, "obligations_evaluated": total}
    chk.extra["rule_text"] = ("all ordered operand pairs x {&,|} and all ~a over K tokens; per result: shape, ==-vs-representative, "
                              "==-vs-one-point-neighbours, is_empty, is_any; plus the full operand x operand == matrix; "
                              "non-trivial = both operands neither empty nor universal and different (counted)")
    chk.trusted += ["total order on versions (PEP 440)", "dataclass-generated __eq__ compares the compare=True fields (modelled from the field specs read from source)"]
    chk.assumptions += [f"<= K={K} distinct bound values per operand pair"]
