"""C18 — wheel file names and platform names are parsed faithfully (DESIGN.md §4 C18).

  R18.1 parse_wheel_tags interpreted from source over a grid of PEP 427 file-name shapes (with/without build tag, dotted compressed
        tag sets, underscores/dots in name and version, wrong extension, wrong part counts): result equals the PEP 427 split, and
        malformed names raise InvalidWheelFilename (a TagsError and ValueError).
  R18.2 every entry of Platform.choices() parses (placeholders instantiated); every alias documented in Platform.parse's docstring
        resolves to the same Platform as its documented target.
  R18.3 Platform.parse(str(p)) == p for every OS family x architecture of the documented families with several X_Y versions.
"""
from __future__ import annotations

import ast
import itertools
import re

from ..absint import AObj, Bound, ClassInfo, MISSING, PyRaise
from ..tagsdomain import TagsDomain


def pep427(filename):
    if not filename.endswith(".whl"):
        return "invalid"
    parts = filename[:-4].split("-")
    if len(parts) not in (5, 6):
        return "invalid"
    py, abi, plat = parts[-3:]
    return (py.split("."), abi.split("."), plat.split("."))


def run(chk):
    chk.explanation = (
        "ABSINT of parse_wheel_tags, Platform.parse, Platform.__str__ and Arch.parse from source over grids of file-name and "
        "platform-name shapes, against the PEP 427 split and the aliases documented in the docstring (read from the AST).")
    chk.rule("R18.1", "parse_wheel_tags equals the PEP 427 split; malformed names raise InvalidWheelFilename")
    chk.rule("R18.2", "choices() entries parse; documented aliases resolve to their targets", min_instances=5)
    chk.rule("R18.3", "Platform.parse(str(p)) == p on the family table")
    dom = TagsDomain(str(chk.src))
    it = dom.it
    pwt = dom.tm.ns.get("parse_wheel_tags")
    chk.require(pwt is not None, "anchor parse_wheel_tags missing")
    IWF = it.resolve(dom.tm.ns.get("InvalidWheelFilename"))
    TE = it.resolve(dom.tm.ns.get("TagsError"))
    chk.require(isinstance(IWF, ClassInfo) and isinstance(TE, ClassInfo), "anchor InvalidWheelFilename/TagsError missing")
    names = ["pkg", "my_pkg", "My.Pkg", "pkg_2"]
    versions = ["1.0", "2.3.4.post1", "1!2.0", "0.1a1", "1.0+local.1"]
    builds = [None, "1", "2build"]
    abis = ["none", "abi3", "cp311", "cp38.abi3"]
    plats = ["any", "manylinux_2_17_x86_64.manylinux2014_x86_64", "win_amd64", "macosx_10_9_x86_64.macosx_11_0_arm64",
             # tags ending in characters of the extension (l, h, w, '.'-adjacent) and unusual but legal shapes
             "linux_armv7l", "manylinux2014_armv7l.linux_armv7l", "macosx_10_9_universal", "win32", "linux_ppc64le.any", "some_osw", "arch_h"]
    pys = ["py3", "py2.py3", "cp311", "cp38.cp39.cp310", "pyw"]
    files = []
    for i, (nm, v, b, py, abi, pl) in enumerate(itertools.product(names, versions, builds, pys, abis, plats)):
        if chk.tier == "quick" and i % 7:
            continue
        files.append("-".join([nm, v] + ([b] if b else []) + [py, abi, pl]) + ".whl")
    files += ["pkg-1.0-py3-none-any.zip", "pkg-1.0-py3-none-any", "pkg-1.0-py3-none-any.whl.txt", "pkg-1.0-py3-none.whl",
              "pkg-1.0-none-any.whl", "pkg-1.0-1-2-py3-none-any.whl", "pkg.whl", ".whl", "a-b-c-d-e-f-g-h.whl", "pkg-1.0-py3-none-any.WHL",
              "pkg-1.0-py3-none-anywhl", "pkg-1.0-py3-none-any_whl", "pkg-1.0-py3-none-any.whl ", "pkg-1.0-py3-none-any.whlx"]
    FN = "dep_logic.tags.tags:parse_wheel_tags"
    for f in files:
        exp = pep427(f)
        try:
            r = it.call(pwt, [f], {})
            got = tuple(list(x) for x in r)
        except PyRaise as e:
            exc = e.exc
            if isinstance(exc, AObj) and exc.cls is IWF:
                got = "invalid"
            else:
                chk.fail("R18.1", f"{FN}:exception-type", f"parse_wheel_tags({f!r}) raises {exc!r}, not InvalidWheelFilename")
                continue
        if exp == "invalid" and got != "invalid":
            chk.fail("R18.1", f"{FN}:accepts-malformed", f"parse_wheel_tags({f!r}) returns {got} for a malformed name (wrong extension or part count)")
        elif exp != "invalid" and got == "invalid":
            chk.fail("R18.1", f"{FN}:rejects-valid", f"parse_wheel_tags({f!r}) raises InvalidWheelFilename for a valid PEP 427 name")
        elif exp != "invalid" and tuple(exp) != got:
            chk.fail("R18.1", f"{FN}:tags", f"parse_wheel_tags({f!r}) = {got}, PEP 427 split is {exp}")
        else:
            chk.ok("R18.1", key=f)
    # the same names after they have been *used*: a platform-less and a platform-bound EnvSpec evaluate them, then they are parsed again
    # (shared/cached tag lists must not be altered by evaluation)
    pvs = it.resolve(it.module("dep_logic.specifiers").ns["parse_version_specifier"])
    rp = it.call(pvs, [">=3.8"], {})
    wc, _ = dom.EnvSpec.lookup("wheel_compatibility")
    chk.require(wc is not MISSING, "anchor EnvSpec.wheel_compatibility missing")
    osm0 = dom.om
    mem0 = {m.f["value"]: m for m in dom.Arch.members}
    mac = it.construct(dom.Platform, [it.construct(it.resolve(osm0.ns["Macos"]), [12, 0], {}), mem0["aarch64"]], {})
    used = [f for f in files if pep427(f) != "invalid" and "." in f.rsplit("-", 1)[-1][:-4]][:40] + \
           ["pkg-1.0-py3-none-macosx_10_9_x86_64.macosx_11_0_arm64.whl", "pkg-1.0-cp311.cp312-abi3.none-manylinux_2_17_x86_64.linux_x86_64.any.whl"]
    for f in used:
        for spec in (dom.envspec(rp, None, None), dom.envspec(rp, mac, None)):
            try:
                it.call(Bound(wc, spec), [f], {})
            except PyRaise:
                pass
        try:
            again = tuple(list(x) for x in it.call(pwt, [f], {}))
        except PyRaise as e:
            chk.fail("R18.1", f"{FN}:after-use", f"parse_wheel_tags({f!r}) raises {e.exc!r} after the name was evaluated")
            continue
        if again != tuple(pep427(f)):
            chk.fail("R18.1", f"{FN}:after-use", f"after wheel_compatibility({f!r}) was evaluated, parse_wheel_tags gives {again} instead of {pep427(f)}: "
                     f"the tag lists handed out by the parser are shared and were altered")
        else:
            chk.ok("R18.1", key=("after-use", f))
    chk.instance("R18.1", len(files) + len(used))
    chk.sample({"file": files[3], "tags": pep427(files[3])})
    # class facts: InvalidWheelFilename is a TagsError and a ValueError
    bases = [getattr(b, "name", None) for b in IWF.mro]
    if TE not in IWF.mro or "ValueError" not in bases:
        chk.fail("R18.1", "dep_logic.tags.tags:InvalidWheelFilename", f"InvalidWheelFilename bases are {bases}; must derive from TagsError and ValueError")
    # R18.2 choices / aliases
    P = dom.Platform
    parse, _ = P.lookup("parse")
    choices, _ = P.lookup("choices")
    chk.require(parse is not MISSING and choices is not MISSING, "anchor Platform.parse/choices missing")
    PFN = "dep_logic.tags.platform:Platform.parse"

    def do_parse(text):
        return it.call(Bound(parse, P), [text], {})
    ch = it.call(Bound(choices, P), [], {})
    for c in ch:
        insts = [c]
        if "X_Y" in c:
            insts = [c.replace("X_Y", v) for v in ("2_17", "14_0", "1_2", "10_9", "11_3", "2_100", "100_0", "0_0", "12_345")]
        for t in insts:
            chk.instance("R18.2")
            try:
                r = do_parse(t)
                if not (isinstance(r, AObj) and r.cls is P):
                    chk.fail("R18.2", f"{PFN}:choice", f"Platform.parse({t!r}) returns {r!r}")
                elif "X_Y" in c and it.to_str(r) != t:
                    # a fully spelled-out family name is its own canonical text: parse must keep family, version and architecture
                    chk.fail("R18.2", f"{PFN}:choice:faithful", f"Platform.parse({t!r}) is {it.to_str(r)!r}: family, version or architecture not kept "
                             f"(names of different families with the same X_Y are parsed in sequence)")
                else:
                    chk.ok("R18.2", key=t)
            except PyRaise as e:
                chk.fail("R18.2", f"{PFN}:choice", f"Platform.choices() lists {c!r} but Platform.parse({t!r}) raises {e.exc!r}")
    doc = ast.get_docstring(parse.node) or ""
    aliases = re.findall(r"`([a-z0-9_]+)`: an alias for `([a-z0-9_]+)`", doc)
    chk.require(len(aliases) >= 4, f"only {len(aliases)} documented aliases found in Platform.parse docstring")
    for alias, target in aliases:
        chk.instance("R18.2")
        try:
            a = do_parse(alias)
            try:
                t = do_parse(target)
            except PyRaise:
                t = None
        except PyRaise as e:
            chk.fail("R18.2", f"{PFN}:alias:{alias}", f"alias {alias!r} / target {target!r} does not parse: {e.exc!r}")
            continue
        first_tag = None
        try:
            first_tag = list(it.getattr(a, "compatible_tags"))[0]
        except (PyRaise, IndexError):
            pass
        if not it.py_eq(a, t) and first_tag != target:
            chk.fail("R18.2", f"{PFN}:alias:{alias}", f"{alias!r} is documented as an alias for {target!r} but parses to {_p(it, a)}, which is neither the platform {target!r} nor has it as its first wheel tag")
        else:
            chk.ok("R18.2", key=(alias, target))
    # Arch spellings accepted in platform strings resolve to the same platform as the canonical spelling
    for alias, canon in (("manylinux_2_17_i686", "manylinux_2_17_x86"), ("manylinux_2_17_i386", "manylinux_2_17_x86"), ("manylinux_2_28_amd64", "manylinux_2_28_x86_64"),
                         ("musllinux_1_2_arm64", "musllinux_1_2_aarch64"), ("windows_amd64", "windows_x86_64"), ("macos_12_0_arm64", "macos_12_0_aarch64")):
        chk.instance("R18.2")
        try:
            a, t = do_parse(alias), do_parse(canon)
        except PyRaise as e:
            chk.fail("R18.2", f"{PFN}:arch-alias:{alias.rsplit('_', 1)[-1]}", f"{alias!r} / {canon!r} does not parse: {e.exc!r}")
            continue
        if not it.py_eq(a, t):
            chk.fail("R18.2", f"{PFN}:arch-alias:{alias.rsplit('_', 1)[-1]}", f"{alias!r} parses to {_p(it, a)}, {canon!r} to {_p(it, t)}")
        else:
            chk.ok("R18.2", key=(alias, canon))
    # R18.3 parse(str(p)) == p
    osm = dom.om
    members = {m.f["value"]: m for m in dom.Arch.members}
    fams = []
    for arch in members:
        for (M, m) in ((2, 17), (2, 5), (2, 34), (2, 100), (3, 0)):
            fams.append(("Manylinux", (M, m), arch))
        for (M, m) in ((1, 1), (1, 2)):
            fams.append(("Musllinux", (M, m), arch))
    for arch in ("x86_64", "aarch64"):
        for (M, m) in ((10, 9), (11, 0), (14, 2), (15, 10), (100, 0), (26, 123)):
            fams.append(("Macos", (M, m), arch))
    for arch in ("x86", "x86_64", "aarch64"):
        fams.append(("Windows", (), arch))
    k = 0
    for osname, args, arch in fams:
        k += 1
        p = it.construct(P, [it.construct(it.resolve(osm.ns[osname]), list(args), {}), members[arch]], {})
        try:
            text = it.to_str(p)
            q = do_parse(text)
        except PyRaise as e:
            chk.fail("R18.3", f"{PFN}:roundtrip:{osname}", f"str/parse of {osname}{args} {arch} raises {e.exc!r}")
            continue
        if not it.py_eq(p, q):
            chk.fail("R18.3", f"{PFN}:roundtrip:{osname}", f"Platform.parse(str(p)) != p for p = {osname}{args}/{arch}: str(p) = {text!r} parses to {_p(it, q)}")
        else:
            chk.ok("R18.3", key=(osname, args, arch))
    chk.instance("R18.3", k)
    chk.exhaustive = True
    chk.analysed = {"wheel_names": len(files), "choices": len(ch), "aliases": len(aliases), "roundtrips": k}
    chk.trusted += ["PEP 427 file name convention (split on '-', last three fields, '.'-compressed tag sets)"]
    chk.assumptions += ["agreement with packaging.utils.parse_wheel_filename beyond the PEP 427 split (name/version validation) is not decided"]


def _p(it, p):
    try:
        return it.to_str(p)
    except Exception:
        return repr(p)
