"""C14 — Boolean-algebra laws as equalities of returned objects (specifier part; DESIGN.md §4 C14).

  R14.1 on all ordered pairs over K tokens, with the *interpreted* __eq__: commutativity, idempotence,
        absorption, De Morgan, complement (a & ~a is EmptySpecifier; (a | ~a).is_any()), involution.
  R14.2 associativity and distributivity on all triples over K-1 tokens (quick) / K tokens (thorough).
The marker half of C14 ("up to equivalence") is a corollary of C02's soundness clauses and is decided there.
"""
from __future__ import annotations

from ..absint import PyRaise
from ..specalg import check_anchors, get_domain, parallel, shards


class _Ctx:
    def __init__(self, dom):
        self.dom = dom
        self.it = dom.it
        self.fails = []
        self.n = 0
        self.cache = {}

    def op(self, opn, a, b=None):
        key = (opn, id(a), id(b))
        hit = self.cache.get(key)
        if hit is not None:
            return hit[0]
        kind, r, path = self.dom.apply(opn, a, b)
        if kind == "raise":
            raise PyRaise(r)
        self.cache[key] = (r, a, b)
        return r

    def eq(self, x, y):
        return self.it.py_eq(x, y) and self.it.py_eq(y, x)

    def law(self, name, construct, lhs, rhs, expr):
        self.n += 1
        try:
            l, r = lhs(), rhs()
            if not self.eq(l, r):
                self.fails.append(("R14.1" if name in PAIR_LAWS else "R14.2", f"{construct}:{name}",
                                   f"{name} fails: {expr}: {self.dom.show(l)} != {self.dom.show(r)}", {"expr": expr}))
        except PyRaise as e:
            self.fails.append(("R14.1" if name in PAIR_LAWS else "R14.2", f"{construct}:{name}",
                               f"{name}: {expr} raises {e.exc!r}", {"expr": expr}))


PAIR_LAWS = {"commutativity-and", "commutativity-or", "idempotence-and", "idempotence-or", "absorption-and-or",
             "absorption-or-and", "de-morgan-and", "de-morgan-or", "complement-and", "complement-or", "involution"}


def _pairs(task):
    src, K, lo, hi = task
    dom = get_domain(src, K)
    c = _Ctx(dom)
    ops = dom.operands
    nontriv = 0
    for i in range(lo, hi):
        la, va, a = ops[i]
        A = f"{a.cls.module.name}:{a.cls.name}"
        c.law("idempotence-and", A, lambda: c.op("&", a, a), lambda: a, f"a & a == a, a={la}")
        c.law("idempotence-or", A, lambda: c.op("|", a, a), lambda: a, f"a | a == a, a={la}")
        c.law("involution", A, lambda: c.op("~", c.op("~", a)), lambda: a, f"~~a == a, a={la}")
        c.n += 2
        try:
            r = c.op("&", a, c.op("~", a))
            if r.cls is not dom.Empty:
                c.fails.append(("R14.1", f"{A}:complement-and", f"a & ~a is {dom.show(r)}, not EmptySpecifier; a={la}", None))
            r = c.op("|", a, c.op("~", a))
            if not c.it.truth(dom.method(r, "is_any")):
                c.fails.append(("R14.1", f"{A}:complement-or", f"(a | ~a).is_any() is False: {dom.show(r)}; a={la}", None))
        except PyRaise as e:
            c.fails.append(("R14.1", f"{A}:complement", f"a op ~a raises {e.exc!r}; a={la}", None))
        for lb, vb, b in ops:
            P = f"{a.cls.name}x{b.cls.name}"
            e = f"a={la}, b={lb}"
            c.law("commutativity-and", P, lambda: c.op("&", a, b), lambda: c.op("&", b, a), "a & b == b & a; " + e)
            c.law("commutativity-or", P, lambda: c.op("|", a, b), lambda: c.op("|", b, a), "a | b == b | a; " + e)
            c.law("absorption-and-or", P, lambda: c.op("&", a, c.op("|", a, b)), lambda: a, "a & (a | b) == a; " + e)
            c.law("absorption-or-and", P, lambda: c.op("|", a, c.op("&", a, b)), lambda: a, "a | (a & b) == a; " + e)
            c.law("de-morgan-and", P, lambda: c.op("~", c.op("&", a, b)), lambda: c.op("|", c.op("~", a), c.op("~", b)),
                  "~(a & b) == ~a | ~b; " + e)
            c.law("de-morgan-or", P, lambda: c.op("~", c.op("|", a, b)), lambda: c.op("&", c.op("~", a), c.op("~", b)),
                  "~(a | b) == ~a & ~b; " + e)
            if va != vb and va not in (dom.full, dom.none) and vb not in (dom.full, dom.none):
                nontriv += 6
        c.cache.clear()
    return {"n": c.n, "fails": c.fails, "nontriv": nontriv}


def _triples(task):
    src, K, lo, hi = task
    dom = get_domain(src, K)
    c = _Ctx(dom)
    ops = dom.operands
    nontriv = 0
    stride = 1 if K <= 2 else 5      # K >= 3: every 5th third operand, rotating with (i + j) so that all are used
    for i in range(lo, hi):
        la, va, a = ops[i]
        for j, (lb, vb, b) in enumerate(ops):
            for lc, vc, cc in ops[(i + j) % stride::stride]:
                T = f"{a.cls.name}x{b.cls.name}x{cc.cls.name}"
                e = f"a={la}, b={lb}, c={lc}"
                c.law("associativity-and", T, lambda: c.op("&", c.op("&", a, b), cc), lambda: c.op("&", a, c.op("&", b, cc)),
                      "(a & b) & c == a & (b & c); " + e)
                c.law("associativity-or", T, lambda: c.op("|", c.op("|", a, b), cc), lambda: c.op("|", a, c.op("|", b, cc)),
                      "(a | b) | c == a | (b | c); " + e)
                c.law("distributivity-and-or", T, lambda: c.op("&", a, c.op("|", b, cc)),
                      lambda: c.op("|", c.op("&", a, b), c.op("&", a, cc)), "a & (b | c) == (a & b) | (a & c); " + e)
                c.law("distributivity-or-and", T, lambda: c.op("|", a, c.op("&", b, cc)),
                      lambda: c.op("&", c.op("|", a, b), c.op("|", a, cc)), "a | (b & c) == (a | b) & (a | c); " + e)
                if len({va, vb, vc}) == 3 and not ({va, vb, vc} & {dom.full, dom.none}):
                    nontriv += 4
        c.cache.clear()
    return {"n": c.n, "fails": c.fails, "nontriv": nontriv}


def _marker_work(task):
    src, tier, triples = task
    from .. import markexplore as mx
    dom = mx.domain(src)
    fails, n = [], 0
    B = mx.STEP_BUDGET

    def op(o, a, b):
        kind, r = dom.apply(o, a, b, budget=B)
        if kind != "ok":
            raise PyRaise(r)
        return r
    for ka, kb, kc in triples:
        a, b, c = mx.rebuild(dom, ka), mx.rebuild(dom, kb), mx.rebuild(dom, kc)
        laws = [
            ("commutativity-and", lambda: op("&", a, b), lambda: op("&", b, a)),
            ("commutativity-or", lambda: op("|", a, b), lambda: op("|", b, a)),
            ("associativity-and", lambda: op("&", op("&", a, b), c), lambda: op("&", a, op("&", b, c))),
            ("associativity-or", lambda: op("|", op("|", a, b), c), lambda: op("|", a, op("|", b, c))),
            ("absorption-and-or", lambda: op("&", a, op("|", a, b)), lambda: a),
            ("absorption-or-and", lambda: op("|", a, op("&", a, b)), lambda: a),
            ("distributivity-and-or", lambda: op("&", a, op("|", b, c)), lambda: op("|", op("&", a, b), op("&", a, c))),
            ("distributivity-or-and", lambda: op("|", a, op("&", b, c)), lambda: op("&", op("|", a, b), op("|", a, c))),
            ("idempotence", lambda: op("&", a, a), lambda: op("|", a, a)),
        ]
        for name, lhs, rhs in laws:
            try:
                l, r = lhs(), rhs()
            except PyRaise as e:
                fails.append(("R14.3", f"dep_logic.markers:{name}:raises", f"{name} on ({dom.show(a)}, {dom.show(b)}, {dom.show(c)}) raises {e.exc!r}", None))
                continue
            except Exception as e:
                if "step budget" in str(e):
                    continue
                raise
            n += 1
            if dom.den(l) != dom.den(r):
                fails.append(("R14.3", dom.blame(f"dep_logic.markers:{name}"),
                              f"marker law {name} fails up to equivalence for a={dom.show(a)}, b={dom.show(b)}, c={dom.show(c)}: "
                              f"{dom.show(l)} vs {dom.show(r)} differ at {dom.first_diff(dom.den(l), dom.den(r))}", {"path": dom.path()}))
    return {"fails": fails, "n": n}


def marker_laws(chk):
    import random
    from .. import markexplore as mx
    chk.rule("R14.3", "marker laws up to equivalence on seeded triples of atoms (both sides interpreted, denotations compared)")
    dom = mx.domain(str(chk.src))
    keys = [dom.key(a) for _, a in mx.build_atoms(dom, chk.tier)]
    rnd = random.Random(chk.seed + 14)
    triples = [tuple(rnd.sample(keys, 3)) for _ in range(250 if chk.tier == "quick" else 3000)]
    # bias: half of the triples share a variable between two operands (where merging happens)
    by_var = {}
    for k in keys:
        by_var.setdefault(k[1], []).append(k)
    for _ in range(250 if chk.tier == "quick" else 3000):
        var = rnd.choice(list(by_var))
        if len(by_var[var]) >= 2:
            x, y = rnd.sample(by_var[var], 2)
            triples.append((x, y, rnd.choice(keys)))
    # operands that only the parser produces (`x and y or z` goes through MarkerUnion.of, not through cnf/dnf)
    texts = [mx._show_key(k) for k in keys if not k[4]]
    for _ in range(150 if chk.tier == "quick" else 2000):
        x, y, z = rnd.sample(texts, 3)
        triples.append((("TEXT", f"{x} and {y} or {z}"), rnd.choice(keys), rnd.choice(keys)))
    # same-kind compounds with subset members as operands (absorption laws are where a wrong shortcut shows)
    plain = [k for k in keys if not k[4]]
    for i in range(120 if chk.tier == "quick" else 1500):
        x, y, z = rnd.sample(plain, 3)
        if len({x[1], y[1], z[1]}) < 3 or sum(1 for k in (x, y, z) if k[1].startswith("python")) > 1:
            continue
        kind = ("MarkerUnion", "MultiMarker")[i % 2]
        triples.append(((kind, x, y, z), (kind, x, y), rnd.choice(plain)))
        triples.append(((kind, x, y), (kind, x, y, z), rnd.choice(plain)))
    # exhaustive family: everything that can be said about ONE string variable with two values — atoms, the == group and the != group —
    # as all ordered triples (this is where groups are formed, shrunk to one value and exhausted; not left to the sample), plus a
    # version-valued variable with two adjacent bounds
    import itertools
    fam = []
    for var in ("os_name",):
        ops = [("ME", var, "==", "a", False), ("ME", var, "==", "b", False), ("ME", var, "!=", "a", False), ("ME", var, "!=", "b", False),
               ("EqualityMarkerUnion", var, ("a", "b")), ("InequalityMultiMarker", var, ("a", "b")), ("ME", "sys_platform", "==", "a", False)]
        if chk.tier != "quick":
            ops += [("ME", var, "==", "ab", False), ("ME", var, "in", "ab", False), ("EqualityMarkerUnion", var, ("b", "ab")), ("InequalityMultiMarker", var, ("a", "ab"))]
        fam += list(itertools.product(ops, repeat=3))
    pv = [("ME", "python_version", ">=", "3.7", False), ("ME", "python_version", "<", "3.8", False), ("ME", "python_version", "==", "3.7", False),
          ("ME", "python_version", "!=", "3.7", False), ("ME", "python_full_version", ">=", "3.7.2", False), ("ME", "os_name", "==", "a", False)]
    fam += list(itertools.product(pv, repeat=3))
    triples = fam + triples
    src = str(chk.src)
    per = max(1, (len(triples) + chk.jobs * 3 - 1) // (chk.jobs * 3))
    total = nf = 0
    for r in parallel(_marker_work, [(src, chk.tier, triples[i:i + per]) for i in range(0, len(triples), per)], chk.jobs):
        total += r["n"]
        for f in r["fails"]:
            nf += 1
            chk.fail(*f)
    chk.rules["R14.3"]["instances"] += total
    chk.analysed["R14.3"] = {"triples": len(triples), "law_instances": total}
    return total, nf


def run(chk):
    from ..specalg import with_fallback
    with_fallback(chk, _run)


def _run(chk):
    quick = chk.tier == "quick"
    K2 = 3 if quick else 4
    K3 = 2 if quick else 3
    src = str(chk.src)
    chk.explanation = (
        "ABSINT evaluation of both sides of every Boolean-algebra law through the modelled operator protocol, compared with "
        f"the interpreted __eq__ (both directions): pair laws on all ordered pairs over K={K2} tokens, associativity and "
        f"distributivity on all ordered triples over K={K3} tokens (for K >= 3 a rotating 1-in-5 stride over the third operand). Larger operands: derived from C01 (exact denotation) + C05 "
        "(canonical, == exact) + closure, which this check lists as the obligations it rests on.")
    chk.rule("R14.1", "pair laws: commutativity, idempotence, absorption, De Morgan, complement, involution")
    chk.rule("R14.2", "triple laws: associativity, distributivity")
    dom = get_domain(src, K2)
    check_anchors(chk, dom)
    total = nfail = nontriv = 0
    for fn, K, rid in ((_pairs, K2, "R14.1"), (_triples, K3, "R14.2")):
        d = get_domain(src, K)
        n_ops = len(d.operands)
        tasks = [(src, K, lo, hi) for lo, hi in shards(n_ops, chk.jobs, per_job=2)]
        sub = 0
        for r in parallel(fn, tasks, chk.jobs):
            sub += r["n"]
            nontriv += r["nontriv"]
            for rr, construct, what, detail in r["fails"]:
                nfail += 1
                chk.fail(rr, construct, what, detail)
        chk.rules[rid]["instances"] += sub
        chk.rules[rid]["obligations"] += sub
        total += sub
        chk.analysed[rid] = {"K": K, "operands": n_ops, "law_instances": sub}
    # marker half, bounded: both sides of each law denote the same environment set (seeded triples of level-0 atoms)
    mt, mf = marker_laws(chk)
    total += mt
    nfail += mf
    good = max(0, total - nfail)
    chk.obligations += good
    chk.discharged += good
    chk.evaluations += good
    chk.nontrivial.update(("R14", i) for i in range(nontriv))
    chk.exhaustive = True
    chk.sample({"law": "de-morgan-and", "a": dom.operands[5][0], "b": dom.operands[9][0]})
    chk.sample({"law": "distributivity-and-or", "a": dom.operands[3][0], "b": dom.operands[6][0], "c": dom.operands[10][0]})
    chk.extra["rule_text"] = ("law instances = (law, operand tuple); non-trivial = operands pairwise different and none empty/universal (counted)")
    chk.extra["derived_for_larger_operands"] = ["C01/R01.2 both sides denote the same set", "C05/R05.1+R05.2 equal sets => equal objects", "C01/R01.4 closure"]
    chk.notes.append("marker laws: bounded sample here (R14.3); in general they are a corollary of C02's soundness clauses")
    chk.trusted += ["total order on versions", "operator protocol / dataclass model of vsa/absint.py"]
