"""C19 — string-atom specifier algebra is exact wherever it is defined (DESIGN.md §4 C19).

  R19.1 for all ordered pairs (op1,v1),(op2,v2) over the RelStr pool and both operators: the outcome is
        NotImplementedError or a specifier whose *denotation* equals and/or of the operands on every candidate
        string; ~a denotes the complement.
  R19.2 observer layer: the code's own __contains__ on every result kind equals the denotation.
  R19.3 quotient coverage: relation signatures realised by the pool = those realised by a strictly larger pool.
"""
from __future__ import annotations

import ast
import itertools

from ..absint import AObj, AnalysisError, Bound, BuiltinExcValue, EXC, Interp, MISSING, PyRaise
from ..specalg import parallel, shards
from ..strdomain import COMPLEMENT, OPS4, OPS_ORD, SEM, pool, signature, signatures

AND, OR = ast.BitAnd(), ast.BitOr()
_ST = {}


def setup(src):
    key = str(src)
    if key not in _ST:
        it = Interp(src)
        it.max_steps = None
        from .. import pkgmodel
        pkgmodel.install(it)   # only used if the table starts consulting packaging (then version-like literals matter)
        gm = it.module("dep_logic.specifiers.generic")
        sm = it.module("dep_logic.specifiers.special")
        for n, m in (("GenericSpecifier", gm), ("EmptySpecifier", sm), ("AnySpecifier", sm)):
            if n not in m.ns:
                raise AnalysisError(f"anchor class {n} missing")
        _ST[key] = (it, gm.ns["GenericSpecifier"], sm.ns["EmptySpecifier"], sm.ns["AnySpecifier"])
    return _ST[key]


def denote(G, Empty, Any_, r, s):
    if not isinstance(r, AObj):
        raise AnalysisError(f"non-object result {r!r}")
    if r.cls is Empty:
        return False
    if r.cls is Any_:
        return True
    if r.cls is G:
        op = r.f["op"]
        if op not in SEM:
            return None
        return SEM[op](s, r.f["value"])
    return None


def _work(task):
    src, ops, strings, lo, hi = task
    it, G, Empty, Any_ = setup(src)
    atoms = [(o, v) for o in ops for v in strings]
    fails, n, undefined, nontriv, samples = [], 0, 0, 0, []
    sigs = set()
    for i in range(lo, hi):
        o1, v1 = atoms[i]
        a = it.construct(G, [o1, v1], {})
        # complement
        n += 1
        it.trace.clear()
        try:
            f, _ = a.cls.lookup("__invert__")
            r = it.call(Bound(f, a), [], {})
            for s in strings:
                d = denote(G, Empty, Any_, r, s)
                if d is None or d != (not SEM[o1](s, v1)):
                    fails.append(("R19.1", f"dep_logic.specifiers.generic:GenericSpecifier.__invert__:{o1}",
                                  f"~({o1} {v1!r}) -> {r!r} is not the complement at candidate {s!r}", None))
                    break
        except PyRaise as e:
            fails.append(("R19.1", f"dep_logic.specifiers.generic:GenericSpecifier.__invert__:{o1}", f"~({o1} {v1!r}) raises {e.exc!r}", None))
        for o2, v2 in atoms:
            b = it.construct(G, [o2, v2], {})
            for opn, op, comb in (("&", AND, lambda x, y: x and y), ("|", OR, lambda x, y: x or y)):
                n += 1
                it.trace.clear()
                meth = "__and__" if opn == "&" else "__or__"
                pair = "/".join(sorted([o1, o2]))
                try:
                    r = it.binop(op, a, b)
                except PyRaise as e:
                    if isinstance(e.exc, BuiltinExcValue) and e.exc.cls is EXC["NotImplementedError"]:
                        undefined += 1
                        continue
                    fails.append(("R19.1", f"dep_logic.specifiers.generic:GenericSpecifier.{meth}:{pair}",
                                  f"({o1} {v1!r}) {opn} ({o2} {v2!r}) raises {e.exc!r} (neither NotImplementedError nor a result)", None))
                    continue
                path = [f"L{ln}={'T' if c else 'F'}" for fn, ln, c in it.trace[-8:]]
                if (o1, v1) != (o2, v2):
                    nontriv += 1
                    if len(samples) < 1 and i % 11 == 3:
                        samples.append({"a": f"{o1} {v1!r}", "op": opn, "b": f"{o2} {v2!r}", "result": repr(r), "path": path})
                for s in strings:
                    exp = comb(SEM[o1](s, v1), SEM[o2](s, v2))
                    d = denote(G, Empty, Any_, r, s)
                    if d is None:
                        fails.append(("R19.1", f"dep_logic.specifiers.generic:GenericSpecifier.{meth}:{pair}",
                                      f"({o1} {v1!r}) {opn} ({o2} {v2!r}) returns an object outside the specifier vocabulary: {r!r}", None))
                        break
                    if d != exp:
                        fails.append(("R19.1", f"dep_logic.specifiers.generic:GenericSpecifier.{meth}:{pair}",
                                      f"({o1} {v1!r}) {opn} ({o2} {v2!r}) -> {r!r}: candidate {s!r} is {'accepted' if d else 'rejected'} "
                                      f"but should be {'accepted' if exp else 'rejected'}", {"path": path}))
                        break
                    try:
                        obs = it.contains(r, s)
                    except PyRaise as e:
                        fails.append(("R19.2", f"{r.cls.module.name}:{r.cls.name}.__contains__", f"{s!r} in {r!r} raises {e.exc!r}", None))
                        break
                    if obs != d:
                        fails.append(("R19.2", f"{r.cls.module.name}:{r.cls.name}.__contains__",
                                      f"{s!r} in {r!r} is {obs}, but the object denotes {d} "
                                      f"(result of ({o1} {v1!r}) {opn} ({o2} {v2!r}))", None))
                        break
    return {"n": n, "undefined": undefined, "fails": fails, "nontriv": nontriv, "samples": samples}


def run(chk):
    src = str(chk.src)
    quick = chk.tier == "quick"
    # relation-class representatives + literals that are different strings but equal / ordered as PEP 440 versions: the property
    # is about STRING atoms, so any version-awareness creeping into the table must show up as a mismatch
    strings = pool("ab", 3) + ["3.8", "3.8.0", "1.0rc1", "1.0RC1", "3.10"]
    ops = OPS4 + OPS_ORD
    chk.explanation = (
        "ABSINT of GenericSpecifier.__and__/__or__/__invert__/__contains__ and Empty/AnySpecifier.__contains__ over all ordered "
        f"pairs of (operator, literal) atoms with literals from a relation-class-complete pool ({len(strings)} strings over {{a,b}}, "
        "length <= 3) and all candidate strings of the pool; oracle = PEP 508 string operator semantics.")
    chk.rule("R19.1", "result denotes and/or/complement of the operands, or NotImplementedError")
    chk.rule("R19.2", "__contains__ of every result kind agrees with its denotation")
    chk.rule("R19.3", "relation-signature quotient is saturated by the pool", min_instances=1)
    it, G, Empty, Any_ = setup(src)
    for cls, names in ((G, ["__and__", "__or__", "__invert__", "__contains__"]), (Empty, ["__contains__"]), (Any_, ["__contains__"])):
        for nm in names:
            chk.require(cls.lookup(nm)[0] is not MISSING, f"anchor {cls.name}.{nm} missing")
    natoms = len(ops) * len(strings)
    tasks = [(src, ops, strings, lo, hi) for lo, hi in shards(natoms, chk.jobs, per_job=2)]
    total = nfail = undefined = nontriv = 0
    for r in parallel(_work, tasks, chk.jobs):
        total += r["n"]
        undefined += r["undefined"]
        nontriv += r["nontriv"]
        for rid, construct, what, detail in r["fails"]:
            nfail += 1
            chk.fail(rid, construct, what, detail)
        for s in r["samples"]:
            chk.sample(s)
    good = max(0, total - nfail)
    chk.obligations += good
    chk.discharged += good
    chk.evaluations += good * len(strings)
    chk.rules["R19.1"]["instances"] += total
    chk.rules["R19.2"]["instances"] += total - undefined
    chk.nontrivial.update(("R19", i) for i in range(nontriv))
    # R19.3 quotient saturation (pure string computation on the oracle side)
    small = signatures(pool("ab", 3))
    bigger = signatures(pool("ab", 4)) if quick else signatures(pool("abc", 4))
    chk.instance("R19.3")
    if bigger - small:
        chk.broken(f"relation-class pool is not saturated: {len(bigger - small)} signatures unrealised by the pool")
    chk.ok("R19.3", key="saturated")
    chk.exhaustive = True
    chk.analysed = {"atoms": natoms, "pair_ops": total, "defined": total - undefined, "undefined_NotImplementedError": undefined,
                    "relation_signatures": len(small), "candidates_per_obligation": len(strings)}
    chk.extra["rule_text"] = ("every ordered pair of (operator, literal) atoms x {&,|} + every ~a; each defined result is compared on every "
                              "candidate string; non-trivial = operands differ (counted)")
    chk.trusted += ["PEP 508 string operator semantics (==, !=, in, not in; Python string order for <,<=,>,>=)"]
    chk.assumptions += ["literals and candidates only enter through ==, in, hashing and < (relation-only lemma; the interpreter would abort on other string-valued uses of a Sym, strings here are concrete representatives of each relation class)"]
