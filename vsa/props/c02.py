"""C02 — marker & and | are sound (DESIGN.md §4 C02).

Decided clauses
  R02.1 bounded ABSINT: for every ordered pair of level-0 atoms (exhaustive) and a seeded sample of level-2 pairs
        (compound x atom, compound x compound), the denotation of the result over the environment grid equals the
        conjunction / disjunction of the operands' denotations; a result reporting is_empty()/is_any() denotes
        nothing / everything.
  R02.2 neutral/absorbing identities with Any/Empty operands on every level-0/1 operand.
  R02.5 observer layer: the interpreted evaluate() of every atom and atom group equals the PEP 508 meaning.
  R02.6 no discarded result: no expression statement whose value is a side-effect-free constructor call.
Not decided: arbitrary-depth trees, termination, anything outside the vocabulary of vsa/markexplore.py.
"""
from __future__ import annotations

import ast

from ..absint import PyRaise
from .. import markexplore as mx
from ..markdomain import Undefined
from ..rules_common import discarded_results
from ..rules_markers import of_exit_shapes


def judge(dom, J, opn, a, b, kind, r):
    disp = f"{a.cls.module.name}:{a.cls.name}.{'__and__' if opn == '&' else '__or__'}"
    expr = f"({dom.show(a)}) {opn} ({dom.show(b)})"
    if kind == "raise":
        J.fail("R02.1", dom.blame(disp), f"{expr} raises {r!r}", {"path": dom.path()})
        return
    da, db = dom.den(a), dom.den(b)
    exp = (da & db) if opn == "&" else (da | db)
    got = dom.den(r)
    if da not in (0, dom.envs.full) and db not in (0, dom.envs.full) and da != db:
        J.nontriv += 1
        if len(J.samples) < 1 and (J.n % 97) == 5:
            J.samples.append({"expr": expr, "result": dom.show(r), "path": dom.path(6)})
    if got != exp:
        env = dom.first_diff(got, exp)
        J.fail("R02.1", dom.blame(disp), f"{expr} -> {dom.show(r)} is not the {'conjunction' if opn == '&' else 'disjunction'}: "
               f"differs at environment {env}", {"expr": expr, "result": dom.show(r), "env": env, "path": dom.path()})
        return
    try:
        ie = dom.it.truth(dom.call(r, "is_empty"))
        ia = dom.it.truth(dom.call(r, "is_any"))
    except PyRaise as e:
        J.fail("R02.1", disp, f"is_empty()/is_any() raises on {dom.show(r)}: {e.exc!r}")
        return
    if ie and got != 0:
        J.fail("R02.1", f"{r.cls.module.name}:{r.cls.name}.is_empty", f"{expr} -> {dom.show(r)} reports is_empty() but is satisfiable")
    if ia and got != dom.envs.full:
        J.fail("R02.1", f"{r.cls.module.name}:{r.cls.name}.is_any", f"{expr} -> {dom.show(r)} reports is_any() but is not universal")


mx.register("c02", judge)


def identities(chk, dom, operands):
    """R02.2: Any & x -> x, Any | x -> Any, Empty & x -> Empty, Empty | x -> x (and reflected)."""
    anym, emptym = dom.any(), dom.empty()
    for x in operands:
        dx = dom.den(x)
        for opn in ("&", "|"):
            for l, r in ((anym, x), (x, anym), (emptym, x), (x, emptym)):
                kind, res = dom.apply(opn, l, r)
                expr = f"({dom.show(l)}) {opn} ({dom.show(r)})"
                construct = f"{l.cls.module.name}:{l.cls.name}.{'__and__' if opn == '&' else '__or__'}"
                if kind == "raise":
                    chk.fail("R02.2", construct, f"{expr} raises {res!r}")
                    continue
                dl, dr = dom.den(l), dom.den(r)
                exp = (dl & dr) if opn == "&" else (dl | dr)
                if dom.den(res) != exp:
                    chk.fail("R02.2", dom.blame(construct), f"{expr} -> {dom.show(res)} is not the identity/absorbing result")
                else:
                    chk.ok("R02.2", key=(opn, dom.show(l), dom.show(r)), nontrivial=False)
    chk.instance("R02.2", len(operands) * 8)


OBS_PRERELEASE = ["3.7.2rc1", "3.7.2.post1", "3.7.2.dev3", "3.8.0b2", "3.8.0.post2", "3.8rc1"]


def observers(chk, dom, atoms):
    from ..markdomain import atom_truth
    """R02.5: interpreted evaluate() of atoms/groups == PEP 508 meaning, varying the atom's own variable."""
    base = dict(dom.envs.envs[0])
    n = 0
    for spec, a in atoms:
        name = spec[0]
        seen = set()
        for e in dom.envs.envs:
            val = e[name]
            k = (val, e.get("python_full_version")) if name.startswith("python") else val
            if k in seen:
                continue
            seen.add(k)
            env = dict(base)
            env[name] = val
            if name.startswith("python"):
                env["python_full_version"], env["python_version"] = e["python_full_version"], e["python_version"]
            env = {kk: (set(v) if isinstance(v, frozenset) else v) for kk, v in env.items()}
            n += 1
            construct = f"{a.cls.module.name}:{a.cls.name}._evaluate"
            try:
                from ..markdomain import atom_truth
                exp = atom_truth(spec[0], spec[1], spec[2], spec[3], e[name])
            except Undefined:
                continue
            try:
                got = dom.evaluate(a, env)
            except PyRaise as ex:
                chk.fail("R02.5", construct + (":reversed" if spec[3] else ""), f"evaluate of {dom.show(a)} raises {ex.exc!r} at {name}={val!r}")
                continue
            if got != exp:
                chk.fail("R02.5", construct + (":reversed" if spec[3] else ""),
                         f"{dom.show(a)} evaluates to {got} at {name}={sorted(val) if isinstance(val, frozenset) else val!r}; PEP 508 meaning is {exp}",
                         {"atom": dom.show(a), "env": {name: str(val)}})
            else:
                chk.ok("R02.5", key=(dom.show(a), str(val)))
        # pre-/post-/dev-release interpreter versions: PEP 440's exclusive-ordering rules make `<`/`>` asymmetric there, so the
        # operand orientation of literal-on-the-left atoms is observable only on these candidates
        if name in ("python_full_version", "python_version"):
            for full in OBS_PRERELEASE:
                pv = ".".join(full.split(".")[:2])
                val = full if name == "python_full_version" else pv
                env = dict(base)
                env["python_full_version"], env["python_version"] = full, pv
                env = {kk: (set(v) if isinstance(v, frozenset) else v) for kk, v in env.items()}
                try:
                    exp = atom_truth(spec[0], spec[1], spec[2], spec[3], val)
                    got = dom.evaluate(a, env)
                except Undefined:
                    continue
                except PyRaise as ex:
                    chk.fail("R02.5", construct + ":prerelease-env", f"evaluate of {dom.show(a)} raises {ex.exc!r} at {name}={val!r}")
                    continue
                n += 1
                if got != exp:
                    chk.fail("R02.5", construct + (":reversed" if spec[3] else "") + ":prerelease-env",
                             f"{dom.show(a)} evaluates to {got} at {name}={val!r}; PEP 508/440 meaning is {exp}",
                             {"atom": dom.show(a), "env": {name: val}})
                else:
                    chk.ok("R02.5", key=(dom.show(a), val))
    chk.instance("R02.5", n)


def run(chk):
    chk.explanation = (
        "Bounded abstract interpretation (ABSINT over the AST of the marker modules; packaging replaced by the PEP 440 model "
        "vsa/pkgmodel.py) of & and | on markers: all ordered pairs of a level-0 atom vocabulary (string variables with "
        "relation-class literals, extra, python_version/python_full_version shape classes, literal-on-the-left atoms), plus a "
        "seeded sample of compound x atom and compound x compound pairs; denotations are bitmasks over an environment grid and "
        "must equal the and/or of the operands'. Plus identities, the evaluate() observer layer on atoms and groups, and the "
        "discarded-result rule. Necessary conditions only: arbitrary trees are not decided.")
    chk.rule("R02.1", "denotation(a op b) == denotation(a) op denotation(b) on the environment grid; is_empty/is_any consistent")
    chk.rule("R02.2", "Any/Empty identities", min_instances=8)
    chk.rule("R02.5", "evaluate() of atoms and atom groups equals the PEP 508 meaning", min_instances=50)
    chk.rule("R02.3", "polarity facts of MultiMarker.of / MarkerUnion.of (drops only duplicate/neutral, absorbing short-circuits, right merge operator)", min_instances=2)
    chk.rule("R02.6", "no discarded side-effect-free result (expression statement that is a bare constructor/call)", min_instances=1)
    dom = mx.domain(str(chk.src))
    atoms = mx.build_atoms(dom, chk.tier)
    stats = mx.explore(chk, "c02")
    total = stats["level1_ops"] + stats["level2_ops"]
    chk.rules["R02.1"]["instances"] += total
    bad = sum(1 for v in chk.violations if v["rule"] == "R02.1") + sum(1 for k, _ in chk.known_hits if k["rule"] == "R02.1")
    good = max(0, total - bad)
    chk.obligations += good
    chk.discharged += good
    chk.evaluations += good
    chk.nontrivial.update(("R02.1", i) for i in range(stats["nontrivial"]))
    # identities on atoms + a few groups
    ops = [a for _, a in atoms]
    identities(chk, dom, ops)
    # observer layer: atoms + groups produced by the code
    groups = []
    seen = set()
    for (sa, a) in atoms:
        for (sb, b) in atoms:
            if sa[0] != sb[0] or sa[0] != "os_name":
                continue
            for opn in ("&", "|"):
                kind, r = dom.apply(opn, a, b)
                if kind == "ok" and r.cls in (dom.EQ, dom.NE) and dom.key(r) not in seen:
                    seen.add(dom.key(r))
                    groups.append(r)
    observers(chk, dom, atoms)
    for g in groups:
        name = g.f["name"]
        for val in mx.CANDS[name]:
            env = {k: (set(v) if isinstance(v, frozenset) else v) for k, v in dom.envs.envs[0].items()}
            env[name] = val
            exp = bool(dom.den_single(g, name, val)) if hasattr(dom, "den_single") else None
            vals = list(dom.it.iterate(g.f["values"]))
            exp = (val in vals) if g.cls is dom.EQ else (val not in vals)
            try:
                got = dom.evaluate(g, env)
            except PyRaise as ex:
                chk.fail("R02.5", f"{g.cls.module.name}:{g.cls.name}._evaluate", f"evaluate of {dom.show(g)} raises {ex.exc!r}")
                continue
            if got != exp:
                chk.fail("R02.5", f"{g.cls.module.name}:{g.cls.name}._evaluate", f"{dom.show(g)} evaluates to {got} at {name}={val!r}, meaning is {exp}")
            else:
                chk.ok("R02.5", key=(dom.show(g), val))
    chk.instance("R02.5", len(groups) * 4)
    # R02.3 polarity facts of the rewriting layer (all paths)
    of_exit_shapes(chk, "R02.3")
    # R02.6
    discarded_results(chk, "R02.6")
    chk.analysed = stats
    chk.exhaustive = False
    chk.extra["rule_text"] = ("level 1: every ordered pair of level-0 atoms x {&,|} (exhaustive); level 2: seeded sample of compound x atom / "
                              "compound x compound pairs; non-trivial = both operands satisfiable, non-universal and of different denotation (counted)")
    chk.trusted += ["PEP 508 operator semantics and PEP 440 version comparison as implemented in vsa/pkgmodel.py (stands in for packaging)"]
    chk.assumptions += ["environments: python_version is the major.minor of python_full_version; extra is a set of names",
                        "operands within the vocabulary of vsa/markexplore.py; deeper trees not decided"]
