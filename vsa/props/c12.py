"""C12 — only()/exclude()/without_extras() eliminate variables soundly (DESIGN.md §4 C12).

  R12.1 (bounded ABSINT) for every marker m of the explored universe and every subset S of names: only(*S) mentions
        no variable outside S, is implied by m on the whole environment grid, and has m's denotation when m mentions
        only names in S.
  R12.2 exclude(n) / without_extras() never mention the removed variable and keep the denotation when m does not mention it.
  R12.3 (class table) every concrete marker class resolves only/exclude/without_extras; without_extras == exclude("extra").
  R12.4 (class table) no marker class defines negation (__invert__/__neg__): the language is monotone, so replacing atoms
        by the universal marker can only widen.
"""
from __future__ import annotations

import ast

from ..absint import ClassInfo, Func, MISSING
from .. import markexplore as mx
from .. import markprops  # noqa: F401


def class_table(chk, dom):
    it = dom.it
    classes = [dom.ME, dom.EQ, dom.NE, dom.MM, dom.MU, dom.Any, dom.Empty]
    for cls in classes:
        for meth in ("only", "exclude", "without_extras"):
            f, owner = cls.lookup(meth)
            chk.instance("R12.3")
            if f is MISSING or not isinstance(f, Func):
                chk.fail("R12.3", f"{cls.module.name}:{cls.name}.{meth}", f"{cls.name} does not resolve {meth}()")
                continue
            abstract = any("abstractmethod" in ast.unparse(d) for d in f.node.decorator_list)
            if abstract:
                chk.fail("R12.3", f"{cls.module.name}:{cls.name}.{meth}", f"{cls.name}.{meth} resolves to an abstract method")
            else:
                chk.ok("R12.3", key=(cls.name, meth))
        for neg in ("__invert__", "__neg__"):
            chk.instance("R12.4")
            if cls.lookup(neg)[0] is not MISSING:
                chk.fail("R12.4", f"{cls.module.name}:{cls.name}.{neg}", f"{cls.name} defines {neg}: the marker language is no longer monotone, "
                         "so only() replacing atoms by the universal marker may narrow")
            else:
                chk.ok("R12.4", key=(cls.name, neg), nontrivial=False)


def run(chk):
    chk.explanation = (
        "Bounded ABSINT: only()/exclude()/without_extras() interpreted from source on every distinct marker of the explored universe "
        "(atoms, atom groups, level-1 compounds, sampled), for subsets of the variables; judged on mentioned variables and on "
        "denotation bitmasks over the environment grid. Plus class-table facts (exhaustiveness, monotone language).")
    chk.rule("R12.1", "only(): no foreign variable, implied by m, equal when m mentions only those names")
    chk.rule("R12.2", "exclude()/without_extras(): variable gone, meaning unchanged when not mentioned")
    chk.rule("R12.3", "every marker class resolves the three methods; without_extras() == exclude('extra') on the universe", min_instances=21)
    chk.rule("R12.4", "no negation in the marker language", min_instances=14)
    dom = mx.domain(str(chk.src))
    class_table(chk, dom)
    keys, ndistinct = mx.collect_universe(chk, limit=1500 if chk.tier == "quick" else 20000)
    u = mx.phase_u(chk, keys, "c12")
    chk.rules["R12.1"]["instances"] += u["n"]
    bad = len(chk.violations) + len(chk.known_hits)
    good = max(0, u["n"] - bad)
    chk.obligations += good
    chk.discharged += good
    chk.evaluations += good
    chk.nontrivial.update(("R12", i) for i in range(u["nontriv"]))
    chk.analysed = {"markers": len(keys), "distinct_level1_results": ndistinct, "calls": u["n"], "skipped_budget": u["skipped"],
                    "environments": dom.envs.n}
    chk.exhaustive = False
    chk.trusted += ["PEP 440/508 model of packaging (vsa/pkgmodel.py)"]
    chk.assumptions += ["markers within the vocabulary of vsa/markexplore.py"]
