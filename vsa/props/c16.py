"""C16 — widening a target never loses wheels; compare() consistent with tag inclusion (DESIGN.md §4 C16).

  R16.1 EnvSpec.compare interpreted from source on all ordered pairs of a spec grid (requires_python x platform x implementation):
        reflexive -> LOWER_OR_EQUAL; INCOMPATIBLE symmetric; never HIGHER both ways; and whenever the answer is LOWER_OR_EQUAL/HIGHER
        for two specs with platforms, the interpreted platform tag sets are nested accordingly.
  R16.2 requires_python monotonicity: every residual of _evaluate_python (symbolic requires_python) is `None` or
        `None if empty(T & requires_python) else score` with a score that does not depend on requires_python — monotone given C01.
  R16.3 platform monotonicity: for every OS family / architecture of C09's grid the tag set of release v is contained in that of
        the next release.
"""
from __future__ import annotations

import itertools

from ..absint import AObj, Bound, MISSING, PyRaise
from ..tagsdomain import IMPLS, TagsDomain, abi_tags, python_tags


def run(chk):
    chk.explanation = (
        "ABSINT of EnvSpec.compare and Platform.compatible_tags from source over a grid of specs (concrete requires_python objects built "
        "by the interpreted parser + PEP 440 model; platforms of the C09 families; implementations), checking the order-theoretic laws and "
        "tag-set nesting; plus the symbolic residual form of _evaluate_python for requires_python monotonicity.")
    chk.rule("R16.1", "compare(): reflexive, INCOMPATIBLE symmetric, never HIGHER both ways, consistent with tag-set nesting")
    chk.rule("R16.2", "requires_python enters only through a negative emptiness guard; score independent of it")
    chk.rule("R16.3", "tag sets are nested along OS releases of one family/architecture")
    dom = TagsDomain(str(chk.src))
    it = dom.it
    osm = dom.om
    members = {m.f["value"]: m for m in dom.Arch.members}
    pvs = it.resolve(it.module("dep_logic.specifiers").ns["parse_version_specifier"])

    def mk(osname, *args):
        return it.construct(it.resolve(osm.ns[osname]), list(args), {})

    def plat(os_obj, arch):
        return it.construct(dom.Platform, [os_obj, members[arch]], {})
    rps = {t: it.call(pvs, [t], {}) for t in (">=3.8", "<3.8", ">=3.6,<3.10", "==3.9.*")}
    plats = {"none": None}
    for arch in ("x86_64", "aarch64"):
        plats[f"manylinux_2_17_{arch}"] = plat(mk("Manylinux", 2, 17), arch)
        plats[f"manylinux_2_28_{arch}"] = plat(mk("Manylinux", 2, 28), arch)
        plats[f"musllinux_1_1_{arch}"] = plat(mk("Musllinux", 1, 1), arch)
        plats[f"musllinux_1_2_{arch}"] = plat(mk("Musllinux", 1, 2), arch)
        plats[f"macos_11_0_{arch}"] = plat(mk("Macos", 11, 0), arch)
        plats[f"macos_14_2_{arch}"] = plat(mk("Macos", 14, 2), arch)
        plats[f"windows_{arch}"] = plat(mk("Windows"), arch)
    plats["macos_10_9_x86_64"] = plat(mk("Macos", 10, 9), "x86_64")
    plats["macos_10_15_x86_64"] = plat(mk("Macos", 10, 15), "x86_64")
    plats["manylinux_2_5_x86"] = plat(mk("Manylinux", 2, 5), "x86")
    impls = [None, ("cpython", False), ("cpython", True), ("pypy", False)]
    if chk.tier == "quick":
        rp_keys = [">=3.8", "<3.8", ">=3.6,<3.10"]
    else:
        rp_keys = list(rps)
    specs = []
    for rk in rp_keys:
        for pk, p in plats.items():
            for im in impls:
                specs.append(((rk, pk, im), dom.envspec(rps[rk], p, im)))
    cmpf, _ = dom.EnvSpec.lookup("compare")
    chk.require(cmpf is not MISSING, "anchor EnvSpec.compare missing")
    EC = it.resolve(dom.tm.ns["EnvCompatibility"])
    names = {id(m): m.f["name"] for m in EC.members}
    tagsets = {}
    for pk, p in plats.items():
        if p is not None:
            tagsets[pk] = set(it.getattr(p, "compatible_tags"))
    FN = "dep_logic.tags.tags:EnvSpec.compare"
    table = {}
    n = 0
    for (ka, a) in specs:
        for (kb, b) in specs:
            n += 1
            try:
                r = it.call(Bound(cmpf, a), [b], {})
            except PyRaise as e:
                chk.fail("R16.1", f"{FN}:raises", f"compare({ka}, {kb}) raises {e.exc!r}")
                continue
            table[(ka, kb)] = names.get(id(r), repr(r))
    chk.instance("R16.1", n)
    nontriv = 0
    for (ka, kb), r in table.items():
        rr = table.get((kb, ka))
        if ka == kb:
            if r != "LOWER_OR_EQUAL":
                chk.fail("R16.1", f"{FN}:reflexive", f"compare(x, x) is {r} for x={ka}")
            else:
                chk.ok("R16.1", key=("refl", ka), nontrivial=False)
            continue
        nontriv += 1
        if (r == "INCOMPATIBLE") != (rr == "INCOMPATIBLE"):
            chk.fail("R16.1", f"{FN}:incompatible-symmetry", f"compare({ka}, {kb}) = {r} but compare({kb}, {ka}) = {rr}")
        elif r == "HIGHER" and rr == "HIGHER":
            chk.fail("R16.1", f"{FN}:higher-both-ways", f"compare is HIGHER in both directions for {ka} / {kb}")
        elif r in ("LOWER_OR_EQUAL", "HIGHER") and ka[1] != "none" and kb[1] != "none":
            ta, tb = tagsets[ka[1]], tagsets[kb[1]]
            if r == "LOWER_OR_EQUAL" and not ta <= tb:
                chk.fail("R16.1", f"{FN}:nesting", f"compare({ka}, {kb}) = LOWER_OR_EQUAL but {len(ta - tb)} platform tags of the first "
                         f"are not accepted by the second (e.g. {sorted(ta - tb)[:3]})")
            elif r == "HIGHER" and not tb <= ta:
                chk.fail("R16.1", f"{FN}:nesting", f"compare({ka}, {kb}) = HIGHER but {len(tb - ta)} platform tags of the second are not accepted by the first "
                         f"(e.g. {sorted(tb - ta)[:3]})")
            else:
                chk.ok("R16.1", key=(ka, kb))
        else:
            chk.ok("R16.1", key=(ka, kb))
    # the tag sets used above were read when each platform was created; they must still be what the platform objects answer now
    for pk, p in plats.items():
        if p is not None:
            now = set(it.getattr(p, "compatible_tags"))
            if now != tagsets[pk]:
                chk.fail("R16.1", "dep_logic.tags.platform:Platform.compatible_tags:retroactive-change",
                         f"the tag set of {pk} changed after other platforms were evaluated (+{sorted(now - tagsets[pk])[:3]}, -{sorted(tagsets[pk] - now)[:3]}): "
                         f"compare()'s LOWER_OR_EQUAL/HIGHER answers no longer match the tag sets the platform accepts")
                break
    # the same nesting obligations with the platforms' tag lists computed in the opposite order on a fresh interpreter
    # (memo tables shared between architectures or families make the lists depend on what was computed first)
    d2 = TagsDomain(str(chk.src))
    it2 = d2.it
    mem2 = {m.f["value"]: m for m in d2.Arch.members}

    def plat2(osname, args, arch):
        return it2.construct(d2.Platform, [it2.construct(it2.resolve(d2.om.ns[osname]), list(args), {}), mem2[arch]], {})
    recipe = {"manylinux_2_17": ("Manylinux", (2, 17)), "manylinux_2_28": ("Manylinux", (2, 28)), "musllinux_1_1": ("Musllinux", (1, 1)),
              "musllinux_1_2": ("Musllinux", (1, 2)), "macos_11_0": ("Macos", (11, 0)), "macos_14_2": ("Macos", (14, 2)), "windows": ("Windows", ()),
              "macos_10_9": ("Macos", (10, 9)), "macos_10_15": ("Macos", (10, 15)), "manylinux_2_5": ("Manylinux", (2, 5))}
    tagsets2 = {}
    for pk in reversed([k for k in plats if k != "none"]):
        fam_, arch_ = pk.rsplit("_", 1) if not pk.endswith("x86_64") else (pk[:-7], "x86_64")
        osname, args = recipe[fam_]
        try:
            tagsets2[pk] = set(it2.getattr(plat2(osname, args, arch_), "compatible_tags"))
        except PyRaise as e:
            chk.fail("R16.1", "dep_logic.tags.platform:Platform.compatible_tags:raises", f"compatible_tags of {pk} raises {e.exc!r} (reverse creation order)")
    for pk, ts in tagsets2.items():
        if ts != tagsets[pk]:
            chk.fail("R16.1", "dep_logic.tags.platform:Platform.compatible_tags:order-dependence",
                     f"the tag set of {pk} depends on which platforms were evaluated before it (+{sorted(ts - tagsets[pk])[:3]}, -{sorted(tagsets[pk] - ts)[:3]} "
                     f"when computed in the opposite order): compare()'s answers cannot match both")
            break
    chk.sample({"a": str(specs[5][0]), "b": str(specs[9][0]), "compare": table.get((specs[5][0], specs[9][0]))})
    # R16.2 residual form (symbolic requires_python)
    from ..absint import AnalysisError
    sdom = TagsDomain(str(chk.src))
    sdom.symbolic()
    m = 0
    try:
        for impl in IMPLS:
            for pt in python_tags():
                for abi in abi_tags(pt):
                    m += 1
                    got = sdom.residual(impl, pt, abi)
                    key = f"dep_logic.tags.tags:EnvSpec._evaluate_python:{pt[:2]}"
                    if got is None or got[0] == "cond":
                        chk.ok("R16.2", key=(impl, pt, abi), nontrivial=got is not None)
                    elif got[0] == "always":
                        chk.fail("R16.2", key + ":ignores-requires_python", f"({impl}, {pt}, {abi}) is accepted regardless of requires_python")
                    else:
                        chk.fail("R16.2", key + ":non-monotone-use", f"({impl}, {pt}, {abi}): requires_python is used other than as a negative emptiness guard: {got[1]}")
    except AnalysisError as e:
        if "symbolic" not in str(e) and "parametric" not in str(e) and "requires_python" not in str(e):
            raise
        chk.notes.append(f"R16.2: _evaluate_python inspects requires_python ({e}); monotonicity then rests on the concrete grid (R16.4)")
    chk.instance("R16.2", m)
    # R16.4: monotonicity on a grid of concrete requires_python values: A admits a subset of B's interpreters => every tag triple
    # accepted under A is accepted under B
    from ..tagsdomain import RP_GRID, concrete_work, rp_fine_set
    from ..specalg import parallel
    chk.rule("R16.4", "widening requires_python never loses a (python tag, abi tag) — concrete requires_python grid")
    grid = RP_GRID if chk.tier == "thorough" else RP_GRID[:18]
    res = {r["rp"]: r["accepted"] for r in parallel(concrete_work, [(str(chk.src), t) for t in grid], chk.jobs)}
    sets = {t: rp_fine_set(t) for t in grid}
    pairs = 0
    for a in grid:
        for b in grid:
            if a != b and sets[a] <= sets[b]:
                pairs += 1
                lost = res[a] - res[b]
                if lost:
                    ex = sorted(lost, key=repr)[0]
                    chk.fail("R16.4", "dep_logic.tags.tags:EnvSpec._evaluate_python:widening-loses-wheel",
                             f"requires_python {a!r} admits a subset of {b!r}, yet {len(lost)} tag triple(s) accepted under the narrower spec are "
                             f"rejected under the wider one, e.g. implementation={ex[0]}, python tag {ex[1]}, abi tag {ex[2]}")
                else:
                    chk.ok("R16.4", key=(a, b))
    chk.instance("R16.4", pairs)
    # R16.3 nesting along releases
    fam = []
    for arch in ("x86_64", "x86", "aarch64", "armv7l", "ppc64le", "ppc64", "s390x", "riscv64"):
        fam.append((f"manylinux/{arch}", [plat(mk("Manylinux", 2, k), arch) for k in range(5, 51)]))
        fam.append((f"musllinux/{arch}", [plat(mk("Musllinux", 1, k), arch) for k in range(1, 6)]))
    fam.append(("macos/x86_64", [plat(mk("Macos", 10, k), "x86_64") for k in range(4, 17)] + [plat(mk("Macos", M, 0), "x86_64") for M in range(11, 31)]))
    fam.append(("macos/arm64", [plat(mk("Macos", M, 0), "aarch64") for M in range(11, 31)]))
    k3 = 0
    # evaluation order matters for hand-rolled memo tables: oldest first, then newest, then the rest (and everything is re-read at the end)
    kept = []
    famsets = {}
    for label, seq in fam:
        order = [0, len(seq) - 1] + list(range(1, len(seq) - 1))
        lists = {}
        for i in order:
            lst = it.getattr(seq[i], "compatible_tags")
            lists[i] = set(lst)
            kept.append((f"{label}#{i}", seq[i], list(lst)))
        sets = [lists[i] for i in range(len(seq))]
        famsets[label] = (seq, sets)
        for i in range(len(sets) - 1):
            k3 += 1
            if not sets[i] <= sets[i + 1]:
                chk.fail("R16.3", f"dep_logic.tags.platform:Platform.compatible_tags:{label.split('/')[0]}",
                         f"{label}: release #{i} accepts tags the next release does not: {sorted(sets[i] - sets[i + 1])[:3]}")
            else:
                chk.ok("R16.3", key=(label, i))
    for lab, pobj, snap in kept:
        now = list(it.getattr(pobj, "compatible_tags"))
        if now != snap:
            chk.fail("R16.3", "dep_logic.tags.platform:Platform.compatible_tags:retroactive-change",
                     f"the tag list of {lab} changed after other platforms were evaluated ({len(snap)} -> {len(now)} tags): an older release now accepts "
                     f"{sorted(set(now) - set(snap))[:3]}, which compare() does not account for")
            break
    chk.instance("R16.3", k3)
    # R16.5: compare() against tag-set nesting on the DENSE release grid of each family (every ordered pair of releases, incl. the
    # 10.16 / 11.0 boundary and mid-year macOS minors), same requires_python and implementation on both sides
    chk.rule("R16.5", "compare() on every ordered pair of releases of one OS family/architecture is consistent with tag-set nesting")
    k5 = 0
    extra_mac = [plat(mk("Macos", M, 3), "x86_64") for M in (11, 12, 14)]
    for label, (seq, sets) in famsets.items():
        if chk.tier == "quick" and label.startswith("manylinux/") and label.split("/")[1] not in ("x86_64", "armv7l", "riscv64"):
            continue
        seq, sets = list(seq), list(sets)
        if label == "macos/x86_64":
            for pobj in extra_mac:
                seq.append(pobj)
                sets.append(set(it.getattr(pobj, "compatible_tags")))
        envs = [dom.envspec(rps[">=3.8"], pobj, None) for pobj in seq]

        def rel(pobj):
            o = pobj.f["os"]
            return f"{o.cls.name}({o.f.get('major')}, {o.f.get('minor')})"
        tab = {}
        for i, a in enumerate(envs):
            for j, b in enumerate(envs):
                try:
                    tab[i, j] = names.get(id(it.call(Bound(cmpf, a), [b], {})))
                except PyRaise as e:
                    chk.fail("R16.5", f"{FN}:raises", f"compare({label} {rel(seq[i])}, {rel(seq[j])}) raises {e.exc!r}")
        for (i, j), r in tab.items():
            k5 += 1
            rr = tab.get((j, i))
            if i == j:
                if r != "LOWER_OR_EQUAL":
                    chk.fail("R16.5", f"{FN}:reflexive", f"{label}: compare(x, x) is {r} for x={rel(seq[i])}")
                else:
                    chk.ok("R16.5", key=(label, i, j), nontrivial=False)
            elif (r == "INCOMPATIBLE") != (rr == "INCOMPATIBLE"):
                chk.fail("R16.5", f"{FN}:incompatible-symmetry", f"{label}: compare({rel(seq[i])}, {rel(seq[j])}) = {r} but the converse is {rr}")
            elif r == "HIGHER" and rr == "HIGHER":
                chk.fail("R16.5", f"{FN}:higher-both-ways", f"{label}: compare is HIGHER in both directions for {rel(seq[i])} / {rel(seq[j])}")
            elif r == "LOWER_OR_EQUAL" and not sets[i] <= sets[j]:
                chk.fail("R16.5", f"{FN}:nesting", f"{label}: compare({rel(seq[i])}, {rel(seq[j])}) = LOWER_OR_EQUAL but the first accepts platform tags "
                         f"the second rejects, e.g. {sorted(sets[i] - sets[j])[:3]}")
            elif r == "HIGHER" and not sets[j] <= sets[i]:
                chk.fail("R16.5", f"{FN}:nesting", f"{label}: compare({rel(seq[i])}, {rel(seq[j])}) = HIGHER but the second accepts platform tags "
                         f"the first rejects, e.g. {sorted(sets[j] - sets[i])[:3]}")
            else:
                chk.ok("R16.5", key=(label, i, j))
    chk.instance("R16.5", k5)
    chk.exhaustive = True
    chk.analysed = {"specs": len(specs), "compare_pairs": n, "residuals": m, "release_steps": k3, "release_pairs": k5}
    chk.extra["rule_text"] = "R16.1: every ordered pair of grid specs (non-trivial = distinct specs); R16.2: every tag triple; R16.3: every consecutive release pair"
    chk.trusted += ["PEP 440 model; specifier algebra exactness (C01/C05) for `(a & b).is_empty()`"]
