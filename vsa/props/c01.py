"""C01 — &, |, ~ on version specifiers are exact set operations (DESIGN.md §4 C01).

Rules
  R01.1 order-only lemma: the slice runs on opaque VTok tokens; any non-comparison use aborts (exit 2).
  R01.2 exactness: denotation(result) == and/or/not of operand denotations on the doubled line.
  R01.3 dispatch totality: no operand-class pair raises (TypeError holes in the operator protocol).
  R01.4 closure: bounds of a result are bounds of its operands (induction to nested expressions).
  R01.5 parser-produced shapes: per PEP 440 operator, _from_pkg_specifier sets the right bounds/inclusivity.
"""
from __future__ import annotations

from ..absint import AObj, AnalysisError, VTok
from ..specalg import ShapeError, check_anchors, get_domain, parallel, shards
from .. import pkgspec

_CFG = {}


def tokens_of(dom, s):
    out = set()
    if isinstance(s, AObj):
        if s.cls is dom.Range:
            for b in (s.f.get("min"), s.f.get("max")):
                if isinstance(b, VTok):
                    out.add(dom.ix(b))
        elif s.cls is dom.Union:
            for r in s.f.get("ranges") or ():
                out |= tokens_of(dom, r)
    return out


def _work(task):
    src, K, lo, hi = task
    dom = get_domain(src, K)
    ops = dom.operands
    fails, n, nontriv = [], 0, 0
    samples = []
    for i in range(lo, hi):
        la, va, a = ops[i]
        # complement
        n += 1
        kind, r, path = dom.apply("~", a)
        exp = tuple(not x for x in va)
        _judge(dom, fails, "~", la, None, a, None, kind, r, path, exp)
        if va not in (dom.full, dom.none):
            nontriv += 1
        for lb, vb, b in ops:
            for opn, comb in (("&", lambda x, y: x and y), ("|", lambda x, y: x or y)):
                n += 1
                kind, r, path = dom.apply(opn, a, b)
                exp = tuple(comb(x, y) for x, y in zip(va, vb))
                _judge(dom, fails, opn, la, lb, a, b, kind, r, path, exp)
                if kind == "ok" and isinstance(r, AObj) and r.cls in dom.classes:
                    # depth 2: the property covers "previous results of these operators" as operands — complement the result itself
                    n += 1
                    k2, r2, p2 = dom.apply("~", r)
                    _judge(dom, fails, "~", f"({la} {opn} {lb})", None, r, None, k2, r2, p2, tuple(not x for x in exp), depth2=True)
                if va != vb and va not in (dom.full, dom.none) and vb not in (dom.full, dom.none):
                    nontriv += 1
                    if len(samples) < 2 and (i * 7 + len(samples)) % 5 == 0 and kind == "ok":
                        samples.append({"op": opn, "a": la, "b": lb, "result": dom.show(r), "path": path[-6:]})
    return {"n": n, "nontriv": nontriv, "fails": fails, "samples": samples, "funcs": sorted(dom.it.funcs_seen)}


def _judge(dom, fails, opn, la, lb, a, b, kind, r, path, exp, depth2=False):
    disp = dom.dispatch_name(opn, a, b)
    expr = f"~{la}" if opn == "~" else f"{la} {opn} {lb}"
    if kind == "raise":
        fails.append(("R01.3", disp, f"{expr} raises {r!r}", {"expr": expr, "path": path}))
        return
    try:
        got = dom.denote(r)
    except ShapeError as e:
        fails.append(("R01.2", dom.blame(disp), f"{expr} returns a malformed object: {e}", {"expr": expr, "path": path}))
        return
    if got != exp:
        fails.append(("R01.2", dom.blame(disp),
                      f"{expr} -> {dom.show(r)} does not denote the exact set "
                      f"(expected {dom.show(dom.objs[exp])})", {"expr": expr, "result": dom.show(r), "path": path}))
        return
    toks = tokens_of(dom, r)
    allowed = tokens_of(dom, a) | (tokens_of(dom, b) if b is not None else set())
    if not toks <= allowed:
        fails.append(("R01.4", dom.blame(disp), f"{expr} -> {dom.show(r)} introduces a bound that is not an operand bound",
                      {"expr": expr, "path": path}))


def run(chk):
    from ..specalg import with_fallback
    with_fallback(chk, _run)


def _run(chk):
    K = 3 if chk.tier == "quick" else 4
    src = str(chk.src)
    chk.explanation = (
        "Exhaustive abstract interpretation (ABSINT over the AST of the current source, never importing it) of "
        "RangeSpecifier/UnionSpecifier/EmptySpecifier/AnySpecifier operators over the complete finite quotient of "
        f"operand pairs with <= K={K} distinct bound values (order-only lemma: versions are opaque tokens supporting "
        "only comparisons, enforced by the interpreter). Oracle: interval sets on the doubled line of 2K+1 points.")
    chk.rule("R01.1", "order-only lemma enforced on the slice (anchors present)", min_instances=9)
    chk.rule("R01.2", "denotation of a&b, a|b, ~a equals and/or/not of operand denotations")
    chk.rule("R01.3", "operator dispatch is total over {Empty, Any, Range, Union}^2")
    chk.rule("R01.4", "result bounds are operand bounds (closure => induction over nested expressions)")
    chk.rule("R01.5", "PEP 440 operator -> bound/inclusivity shape table of _from_pkg_specifier", min_instances=9)
    dom = get_domain(src, K)
    check_anchors(chk, dom)
    from ..specalg import SLICE_ANCHORS
    chk.instance("R01.1", sum(len(v[1]) for v in SLICE_ANCHORS.values()))
    chk.ok("R01.1", n=sum(len(v[1]) for v in SLICE_ANCHORS.values()))
    n_ops = len(dom.operands)
    tasks = [(src, K, lo, hi) for lo, hi in shards(n_ops, chk.jobs)]
    results = parallel(_work, tasks, chk.jobs)
    total = sum(r["n"] for r in results)
    nontriv = sum(r["nontriv"] for r in results)
    funcs = set()
    nfail = 0
    for r in results:
        funcs.update(r["funcs"])
        for rid, construct, what, detail in r["fails"]:
            nfail += 1
            chk.fail(rid, construct, what, detail)
        for s in r["samples"]:
            chk.sample(s)
    chk.instance("R01.2", total)
    chk.instance("R01.3", n_ops * n_ops)
    chk.instance("R01.4", total)
    good = total - nfail
    chk.obligations += good
    chk.discharged += good
    chk.evaluations += good
    chk.rules["R01.2"]["obligations"] += good
    for i in range(nontriv):
        pass
    chk.nontrivial.update(("R01.2", i) for i in range(nontriv))
    chk.exhaustive = True
    chk.analysed = {"K": K, "operands": n_ops, "operator_applications": total,
                    "functions_interpreted": sorted(funcs), "points_on_doubled_line": dom.NPTS}
    chk.extra["rule_text"] = (
        "every ordered pair of canonical specifiers over K tokens (+ the AnySpecifier spelling) x {&,|} and every "
        "~a; a case is non-trivial when both operands are neither empty nor universal and differ (counted); "
        "distinct = distinct (op, operand vectors)")
    chk.trusted += ["packaging.version.Version is a total order (PEP 440) — modelled as opaque ordered tokens",
                    "Python binary-operator protocol and dataclass __init__/__eq__ as modelled in vsa/absint.py"]
    chk.assumptions += [f"operands use at most K={K} distinct bound values; larger operands by the closure/induction argument of DESIGN.md C01 (argument, not check)"]
    # R01.5 parser shapes
    pkgspec.check_shapes(chk, "R01.5")
