"""C09 — platform tag sets and preference order (DESIGN.md §4 C09).

  R09.1 Platform.compatible_tags is interpreted from source (ABSINT) for EVERY platform of the property's grid — manylinux
        2.5..2.50 x 7 architectures (+ the two floor-less ones), musllinux 1.1..1.5, macOS 10.4..10.16 (x86_64) and 11..30
        (x86_64, arm64), Windows x 3 — and compared with an independent generator written from PEP 600/599/571/513, PEP 656 and
        the macOS rules as C09 states them: exact sequence for manylinux and macOS (legacy fat* formats ignored), set for
        musllinux and Windows.
  R09.2 architecture floors / binary-format tables (Arch.get_minimum_manylinux_minor, get_mac_binary_formats) per enum member.
  R09.3 EnvSpec._evaluate_platform: score strictly decreasing with list index, `any` accepted last and lowest, -1 without platform,
        None for foreign tags.
"""
from __future__ import annotations

from ..absint import AObj, Bound, MISSING, PyRaise
from ..tagsdomain import TagsDomain

FLOOR = {"x86_64": 5, "x86": 5, "aarch64": 17, "armv7l": 17, "ppc64le": 17, "ppc64": 17, "s390x": 17, "riscv64": 17}
LEGACY = {17: "manylinux2014", 12: "manylinux2010", 5: "manylinux1"}
MAC_FORMATS = {"x86_64": ["x86_64", "intel", "universal2", "universal"], "arm64": ["arm64", "universal2"]}


def spec_manylinux(minor, arch):
    out = []
    fl = FLOOR.get(arch)
    if fl is not None:
        for k in range(minor, fl - 1, -1):
            out.append(f"manylinux_2_{k}_{arch}")
            if k in LEGACY:
                out.append(f"{LEGACY[k]}_{arch}")
    out.append(f"linux_{arch}")
    return out


def spec_musllinux(minor, arch):
    return {f"linux_{arch}"} | {f"musllinux_1_{k}_{arch}" for k in range(1, minor + 1)}


def spec_macos(major, minor, arch):
    fm = MAC_FORMATS[arch]
    out = []
    if major == 10:
        for m in range(minor, 3, -1):
            out += [f"macosx_10_{m}_{f}" for f in fm]
        return out
    for M in range(major, 10, -1):
        out += [f"macosx_{M}_0_{f}" for f in fm]
    for m in range(16, 3, -1):
        out += [f"macosx_10_{m}_{f}" for f in (fm if arch == "x86_64" else ["universal2"])]
    return out


def run(chk):
    chk.explanation = (
        "ABSINT of Platform.compatible_tags (and the Arch tables it uses) from the current source for every platform of the property's "
        "grid, compared with an independent PEP 600/656/macOS rule generator; exact order for manylinux/macOS, set for musllinux/Windows; "
        "plus the scoring function _evaluate_platform.")
    chk.rule("R09.1", "compatible_tags equals the PEP rule generator on the whole grid")
    chk.rule("R09.2", "architecture floor / binary format tables", min_instances=10)
    chk.rule("R09.3", "_evaluate_platform scoring", min_instances=1)
    dom = TagsDomain(str(chk.src))
    it = dom.it
    osm = dom.om
    for n in ("Manylinux", "Musllinux", "Macos", "Windows"):
        chk.require(n in osm.ns, f"anchor dep_logic.tags.os:{n} missing")
    Arch = dom.Arch
    members = {m.f["value"]: m for m in Arch.members}
    FN = "dep_logic.tags.platform:Platform.compatible_tags"

    kept = []   # (label, platform object, snapshot of its tag list) — re-read at the end: results must not change retroactively

    def tags_of(os_obj, arch_member, label=None):
        p = it.construct(dom.Platform, [os_obj, arch_member], {})
        it.trace.clear()
        try:
            r = it.getattr(p, "compatible_tags")
        except PyRaise as e:
            return ("raise", repr(e.exc))
        kept.append((label or "?", p, list(r)))
        return list(r)

    def mk(osname, *args):
        return it.construct(it.resolve(osm.ns[osname]), list(args), {})

    n = 0
    # manylinux
    for arch in list(FLOOR) + ["armv6l", "loongarch64"]:
        chk.require(arch in members, f"Arch member {arch} missing")
        for minor in range(5, 51):
            n += 1
            got = tags_of(mk("Manylinux", 2, minor), members[arch], f"manylinux_2_{minor}_{arch}")
            exp = spec_manylinux(minor, arch)
            key = f"{FN}:manylinux:{'x86' if FLOOR.get(arch) == 5 else 'floor17' if arch in FLOOR else 'nofloor'}"
            _cmp(chk, key, f"manylinux_2_{minor}_{arch}", got, exp, ordered=True)
    # musllinux
    for arch in FLOOR:
        for minor in range(1, 6):
            n += 1
            got = tags_of(mk("Musllinux", 1, minor), members[arch], f"musllinux_1_{minor}_{arch}")
            _cmp(chk, f"{FN}:musllinux", f"musllinux_1_{minor}_{arch}", got, spec_musllinux(minor, arch), ordered=False)
    # macOS
    for minor in range(4, 17):
        n += 1
        got = tags_of(mk("Macos", 10, minor), members["x86_64"], f"macos_10_{minor}_x86_64")
        _cmp(chk, f"{FN}:macos10-x86_64", f"macos_10_{minor}_x86_64", got, spec_macos(10, minor, "x86_64"), ordered=True, drop_fat=True)
    for major in range(11, 31):
        for minor in (0, 3):
            for arch, am in (("x86_64", members["x86_64"]), ("arm64", members["aarch64"])):
                n += 1
                got = tags_of(mk("Macos", major, minor), am, f"macos_{major}_{minor}_{arch}")
                _cmp(chk, f"{FN}:macos11+-{arch}", f"macos_{major}_{minor}_{arch}", got, spec_macos(major, minor, arch), ordered=True, drop_fat=True)
    # windows
    for arch, tag in (("x86", "win32"), ("x86_64", "win_amd64"), ("aarch64", "win_arm64")):
        n += 1
        got = tags_of(mk("Windows"), members[arch], f"windows_{arch}")
        _cmp(chk, f"{FN}:windows", f"windows_{arch}", got, {tag}, ordered=False)
    chk.instance("R09.1", n)
    # second pass in the opposite order on the SAME interpreter state: a result must not depend on what was computed before
    # (hand-rolled memo tables, shared lists trimmed or extended in place)
    chk.rule("R09.4", "tag lists do not depend on evaluation order and do not change retroactively")
    second = 0
    for minor in range(50, 4, -7):
        for arch in ("x86_64", "aarch64"):
            second += 1
            _cmp(chk, f"{FN}:manylinux:order-dependence", f"manylinux_2_{minor}_{arch} (second pass, descending)", tags_of(mk("Manylinux", 2, minor), members[arch]),
                 spec_manylinux(minor, arch), ordered=True, rid="R09.4")
    for major, minor in ((30, 0), (12, 0), (10, 16), (10, 9), (10, 4), (11, 0), (10, 12)):
        second += 1
        _cmp(chk, f"{FN}:macos:order-dependence", f"macos_{major}_{minor}_x86_64 (second pass)", tags_of(mk("Macos", major, minor), members["x86_64"]),
             spec_macos(major, minor, "x86_64"), ordered=True, drop_fat=True, rid="R09.4")
    for minor in (5, 1, 3):
        second += 1
        _cmp(chk, f"{FN}:musllinux:order-dependence", f"musllinux_1_{minor}_x86_64 (second pass)", tags_of(mk("Musllinux", 1, minor), members["x86_64"]),
             spec_musllinux(minor, "x86_64"), ordered=False, rid="R09.4")
    changed = 0
    for label, pobj, snap in kept:
        now = list(it.getattr(pobj, "compatible_tags"))
        if now != snap:
            changed += 1
            chk.fail("R09.4", f"{FN}:retroactive-change", f"the tag list of {label} changed after later evaluations: {len(snap)} tags when computed, {len(now)} now "
                     f"(first difference: {next((a, b) for a, b in zip(now + [None], snap + [None]) if a != b)})")
    chk.instance("R09.4", second + len(kept))
    if not changed:
        chk.ok("R09.4", key="stable", n=len(kept))
    # R09.2 tables
    gm, _ = Arch.lookup("get_minimum_manylinux_minor")
    gf, _ = Arch.lookup("get_mac_binary_formats")
    chk.require(gm is not MISSING and gf is not MISSING, "anchor Arch.get_minimum_manylinux_minor/get_mac_binary_formats missing")
    for val, mem in members.items():
        chk.instance("R09.2")
        got = it.call(Bound(gm, mem), [], {})
        if got != FLOOR.get(val):
            chk.fail("R09.2", f"dep_logic.tags.platform:Arch.get_minimum_manylinux_minor:{val}",
                     f"manylinux floor for {val} is {got}, PEP 600/599/513 table says {FLOOR.get(val)}")
        else:
            chk.ok("R09.2", key=("floor", val))
    for val, name in (("x86_64", "x86_64"), ("aarch64", "arm64")):
        got = [f for f in it.call(Bound(gf, members[val]), [], {}) if not f.startswith("fat")]
        if got != MAC_FORMATS[name]:
            chk.fail("R09.2", f"dep_logic.tags.platform:Arch.get_mac_binary_formats:{val}", f"mac binary formats for {val}: {got}, expected {MAC_FORMATS[name]}")
        else:
            chk.ok("R09.2", key=("formats", val))
    # R09.3 scoring
    def evp_call(spec, t):
        return dom.plat_eval(spec, t)
    rp_any = it.call(it.resolve(it.module("dep_logic.specifiers").ns["parse_version_specifier"]), [">=3.0"], {})
    chk.instance("R09.3")
    for os_obj, am in ((mk("Manylinux", 2, 28), members["x86_64"]), (mk("Macos", 12, 0), members["aarch64"]), (mk("Windows"), members["x86_64"])):
        p = it.construct(dom.Platform, [os_obj, am], {})
        spec = dom.envspec(rp_any, p, None)
        tags = list(it.getattr(p, "compatible_tags")) + ["any"]
        scores = [evp_call(spec, t) for t in tags]
        okk = all(isinstance(s, int) for s in scores) and all(a > b for a, b in zip(scores, scores[1:])) and scores[-1] >= 1
        foreign = evp_call(spec, "no_such_platform_tag")
        again = [evp_call(spec, t) for t in tags]
        if again != scores:
            chk.fail("R09.3", "dep_logic.tags.tags:EnvSpec._evaluate_platform:unstable", f"platform scores change between two evaluations of the same tags: {scores[:4]} then {again[:4]}")
        if not okk or foreign is not None:
            chk.fail("R09.3", "dep_logic.tags.tags:EnvSpec._evaluate_platform",
                     f"platform scores are not strictly decreasing with list position / `any` not last and positive / foreign tag not None: {scores[:6]}.. foreign={foreign}")
        else:
            chk.ok("R09.3", key=("scores", len(tags)), n=len(tags))
    spec = dom.envspec(rp_any, None, None)
    s = evp_call(spec, "any")
    if s != -1:
        chk.fail("R09.3", "dep_logic.tags.tags:EnvSpec._evaluate_platform:no-platform", f"without a platform the score is {s}, expected -1")
    else:
        chk.ok("R09.3", key="no-platform")
    chk.exhaustive = True
    chk.analysed = {"platforms": n, "arch_members": len(members)}
    chk.extra["rule_text"] = "one obligation per platform of the grid (tag list compared element-wise); all non-trivial (lists of 1..200 tags)"
    chk.trusted += ["PEP 600/599/571/513, PEP 656 and the macOS tag rules as C09 states them (generator in vsa/props/c09.py)"]


def _cmp(chk, construct, label, got, exp, ordered, drop_fat=False, rid="R09.1"):
    if isinstance(got, tuple) and got and got[0] == "raise":
        chk.fail(rid, construct, f"compatible_tags raises for {label}: {got[1]}")
        return
    g = [t for t in got if not (drop_fat and ("_fat32" in t or "_fat64" in t))]
    if ordered:
        same = g == list(exp)
    else:
        same = set(g) == set(exp) and len(g) == len(set(g))
    if same:
        chk.ok(rid, key=label)
        if label in ("manylinux_2_17_x86_64", "macos_11_0_arm64"):
            chk.sample({"platform": label, "tags": g[:8], "n": len(g)})
        return
    extra = [t for t in g if t not in set(exp)]
    missing = [t for t in exp if t not in set(g)]
    what = f"{label}: "
    if extra or missing:
        what += f"unexpected tags {extra[:4]}{'...' if len(extra) > 4 else ''}, missing tags {missing[:4]}{'...' if len(missing) > 4 else ''}"
    else:
        i = next(i for i, (a, b) in enumerate(zip(g, exp)) if a != b)
        what += f"order differs from packaging.tags order at position {i}: {g[i]} vs {list(exp)[i]}"
    chk.fail(rid, construct, what, {"platform": label, "derived_head": g[:10], "expected_head": list(exp)[:10]})
