"""C17 — specifier parser acceptance / exception discipline (DESIGN.md §4 C17).

  R17.1 operator exhaustiveness: every key of packaging's Specifier._operators (read from the installed packaging *source*
        with ast — not imported) is handled by _from_pkg_specifier (no fall-through to `raise InvalidSpecifier("Unsupported...")`).
  R17.2 raw-text arithmetic safety: no valid specifier text of the PEP 440 text-shape grammar (epochs, pre/post/dev in every
        spelling/separator/case, 1-4 release segments, wildcards, ~=) makes _from_pkg_specifier raise.
  R17.3 exception discipline of parse_version_specifier (interpreted; SpecifierSet modelled): valid comma sets, `||` alternatives
        and `<empty>` return a specifier; texts the modelled grammar rejects raise dep_logic's InvalidSpecifier and nothing else;
        from_specifierset does not raise on (non-===) SpecifierSet values.
Not decided: equality of the accepted language with packaging's real grammar.
"""
from __future__ import annotations

import ast
import glob
import pathlib

from ..absint import AObj, PyRaise
from .. import pkgmodel, pkgspec
from ..verdomain import VerDomain

PEP440_OPS = ["~=", "==", "!=", "<=", ">=", "<", ">", "==="]


def packaging_ops(chk):
    for pat in ("/venv/lib/python3*/site-packages/packaging/specifiers.py", "/usr/lib/python3/dist-packages/packaging/specifiers.py"):
        for f in glob.glob(pat):
            try:
                tree = ast.parse(pathlib.Path(f).read_text())
            except (OSError, SyntaxError):
                continue
            for c in ast.walk(tree):
                if isinstance(c, ast.ClassDef) and c.name == "Specifier":
                    for st in c.body:
                        tgt = st.targets[0] if isinstance(st, ast.Assign) else st.target if isinstance(st, ast.AnnAssign) else None
                        if isinstance(tgt, ast.Name) and tgt.id == "_operators" and isinstance(getattr(st, "value", None), ast.Dict):
                            keys = [k.value for k in st.value.keys if isinstance(k, ast.Constant)]
                            if keys:
                                return keys, f
    return None, None


def _model_rejects(text):
    if text == "<empty>":
        return False
    try:
        for part in text.split("||"):
            if part != "<empty>":
                pkgmodel.SpecifierSetVal(part)
    except PyRaise:
        return True
    return False


def run(chk):
    src = str(chk.src)
    chk.explanation = (
        "Partial evaluation of _from_pkg_specifier on a finite grammar of PEP 440 text shapes (Version opaque) for raise-freedom and "
        "operator exhaustiveness (operator list cross-read from packaging's source by AST), plus ABSINT of parse_version_specifier / "
        "from_specifierset for the exception type on rejected texts.")
    chk.rule("R17.1", "every packaging operator is handled", min_instances=8)
    chk.rule("R17.2", "valid specifier texts never make the textual arithmetic raise", min_instances=1000)
    chk.rule("R17.3", "parse_version_specifier raises only InvalidSpecifier; from_specifierset total on non-=== sets", min_instances=20)
    ops, where = packaging_ops(chk)
    if ops is None:
        ops = PEP440_OPS
        chk.notes.append("packaging source not found; operator list taken from PEP 440")
    else:
        chk.notes.append(f"operator list cross-read from {where}")
        if set(ops) != set(PEP440_OPS):
            chk.notes.append(f"WARNING: packaging's operator table {sorted(ops)} differs from PEP 440's {sorted(PEP440_OPS)}")
    run_ = pkgspec.PkgSpecRunner(src)
    for op in ops:
        chk.instance("R17.1")
        text = "1.2" if op != "~=" else "1.2"
        got = run_.run(op, text)
        if got[0] == "raise":
            chk.fail("R17.1", f"{pkgspec.FN}:operator:{op}", f"operator {op!r} of packaging's table is not handled: '{op}{text}' raises {got[1]}")
        else:
            chk.ok("R17.1", key=op)
    pkgspec.check_raises(chk, "R17.2")
    # R17.3
    d = VerDomain(src)
    valid = [">=1.0", ">=1.0,<2.0", "==1.*", "!=1.4.*,>1", "~=1.4.2", "<empty>", ">=1||<0.5", "<empty>||>=1", "==1!2.0", "~=1!1.0", "==1!1.*",
             "", " >= 1.0 , < 2 ", "||", "~=1.0.POST1", ">=1.0a1,<1.0rc1", "!=1.5", "===1.5",
             # contradictory / redundant clause sequences followed by further clauses (the fold must stay total)
             ">=2,<1,!=1.5", "==1.0,==2.0,!=1.0.*", "~=2.1,<2,!=2.0.dev1", "<1,>=2,~=3.1", ">=1,<=1,!=1", "!=1.*,==1.5,>=0", "==1.0,!=1.0,<3,>2",
             ">=1.0", "==1!3.*", "<1||>=2.0.dev1", ">=1,<2||>=2,<3||==5.*", "!=1.5,!=1.6,!=1.7.*,>1,<2",
             # optional leading v / V of PEP 440 versions, also with wildcards, ~=, epochs, inside sets and alternatives
             "==v1.*", "!=V2.0.*", ">=v1.0", "~=v1.4.2", "==V1!2.*", "<v2,>=V1.0a1", "==v1.0||!=v2.*", "~=V1.0.post1"]
    invalid = ["abc", ">>1", "=1.0", "~=1", "==1.*.2", ">=1.0 <2", "1.0", "==1.0.*.post1", "~=1.*", ">=1.*", "<1.0.*", "==", ">=1.0||>>2",
               "!1.0", "==1..0", ">=1.0,abc", "~=1.0a", "== 1.0 ; python_version", ">=v", "<empty>||abc",
               # near misses of texts parsed just before (a history-keyed cache must not accept them), blanks in forbidden positions
               "> = 1.0", "==1! 3.*", "<1| |>=2.0.dev1", "<emp ty>", ">=1 .0", "= =1.0", "~ =1.4.2",
               # characters that are special to str.format / % / regex when a message is built from the rejected text
               # non-ASCII decimal digits (str.isdigit / \\d accept them, PEP 440 does not), stray unicode
               ">=\uff13.\uff18", "<\uff14", ">\u0663", "==\uff11.\uff10", "~=1.\u0664", ">=1.0\u00a0", ">=1.0,<\uff12",
               ">=1.{", ">=1.0,<2}", ">={version}", ">=1.0,{}", "~=1.0||<{", "{0}", "%s", ">=1.0%d", ">=1.0\\", ">=1.0,[", "(>=1.0", ">=1.0)"]
    for t in valid:
        chk.instance("R17.3")
        try:
            pkgmodel.SpecifierSetVal(t) if ("||" not in t and t != "<empty>") else None
        except PyRaise:
            chk.broken(f"self-check: text {t!r} listed as valid is rejected by the model grammar")
        try:
            r = d.parse(t)
            chk.ok("R17.3", key=("valid", t))
        except PyRaise as e:
            chk.fail("R17.3", f"dep_logic.specifiers:parse_version_specifier:valid:{d.exc_name(e)}", f"parse_version_specifier({t!r}) raises {d.exc_name(e)} for a valid specifier set")
    for t in invalid:
        chk.instance("R17.3")
        try:
            r = d.parse(t)
            if _model_rejects(t):
                chk.fail("R17.3", "dep_logic.specifiers:parse_version_specifier:accepts-invalid",
                         f"parse_version_specifier({t!r}) returns {d.show(r)} although the specifier grammar rejects the text "
                         f"(texts are parsed in sequence; an earlier valid text may have primed a cache)")
            else:
                chk.notes.append(f"model grammar: {t!r} accepted -> {d.show(r)}")
                chk.ok("R17.3", key=("accepted", t), nontrivial=False)
        except PyRaise as e:
            exc = e.exc
            if isinstance(exc, AObj) and d.InvalidSpecifier in exc.cls.mro:
                chk.ok("R17.3", key=("invalid", t))
            else:
                chk.fail("R17.3", f"dep_logic.specifiers:parse_version_specifier:escape:{d.exc_name(e)}",
                         f"parse_version_specifier({t!r}) raises {d.exc_name(e)} instead of dep_logic's InvalidSpecifier")
    # arbitrary-equality clauses: the operand is any text; whatever the library decides, the only exception allowed is InvalidSpecifier
    for t in ["===abc", "===nightly.*", "===abc.*", "===1.0.*", "===2024.*", "===1.0+local.*", "=== foo", "===v1", "===1.*.*", "===.*", "===*"]:
        chk.instance("R17.3")
        try:
            d.parse(t)
            chk.ok("R17.3", key=("arbitrary", t))
        except PyRaise as e:
            exc = e.exc
            if isinstance(exc, AObj) and d.InvalidSpecifier in exc.cls.mro:
                chk.ok("R17.3", key=("arbitrary-invalid", t))
            else:
                chk.fail("R17.3", f"dep_logic.specifiers:parse_version_specifier:escape:{d.exc_name(e)}",
                         f"parse_version_specifier({t!r}) raises {d.exc_name(e)} instead of returning a specifier or raising dep_logic's InvalidSpecifier")
    fs = d.sp.ns.get("from_specifierset")
    chk.require(fs is not None, "anchor from_specifierset missing")
    for t in [v for v in valid if "||" not in v and "<empty>" not in v and "===" not in v]:
        chk.instance("R17.3")
        try:
            d.it.call(fs, [pkgmodel.SpecifierSetVal(t)], {})
            chk.ok("R17.3", key=("from_specifierset", t))
        except PyRaise as e:
            chk.fail("R17.3", f"dep_logic.specifiers:from_specifierset:{d.exc_name(e)}", f"from_specifierset(SpecifierSet({t!r})) raises {d.exc_name(e)}")
    chk.exhaustive = True
    chk.analysed = {"operators": ops, "valid_texts": len(valid), "invalid_texts": len(invalid), "text_shapes": len(pkgspec.shapes())}
    chk.sample({"valid": valid[:4], "invalid": invalid[:4]})
    chk.trusted += ["PEP 440 grammar of vsa/pkgspec.py / vsa/pkgmodel.py stands in for packaging's regexes"]
    chk.assumptions += ["=== operands are outside C17's version grammar (their raise-or-exact contract is C04's)"]
