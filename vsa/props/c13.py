"""C13 — equality is an equivalence compatible with hashing (DESIGN.md §4 C13).

  R13.1 (class table) every dataclass of the algebra/tags layers: eq enabled, hash generated, and the set of fields that take
        part in __eq__ equals the set that takes part in __hash__.
  R13.2 (ABSINT) on the complete specifier operand domain over K tokens (incl. both universal spellings) and on the explored
        marker universe: == is reflexive and symmetric, equal objects have equal (modelled) hashes, and == is transitive;
        a hand-written __eq__ comes with a __hash__.
  R13.3 (RULES) every field excluded from comparison is classified by where it is read: pure cache (lazy getter only),
        presentation (string rendering only) or semantic (read by evaluation / operators).  A semantic field outside __eq__
        makes equal objects non-interchangeable unless every operator that can carry the flag has a converse in _op_reflect_map.
  R13.4 (ABSINT) equal markers of the explored universe have equal denotations (interchangeable as operands).
"""
from __future__ import annotations

import ast
import itertools

from ..absint import AObj, ClassInfo, Func, Interp, MISSING, PyRaise
from .. import markexplore as mx
from ..rules_common import iter_sources, qualname_map
from ..rules_tables import const_dict, module_tree
from ..specalg import get_domain
from ..strdomain import CONVERSE


def dataclass_table(chk, it):
    mods = ["dep_logic.specifiers.range", "dep_logic.specifiers.union", "dep_logic.specifiers.arbitrary", "dep_logic.specifiers.generic",
            "dep_logic.markers.single", "dep_logic.markers.multi", "dep_logic.markers.union", "dep_logic.tags.tags", "dep_logic.tags.platform",
            "dep_logic.tags.os"]
    out = []
    for mn in mods:
        m = it.module(mn)
        for name, v in list(m.ns.items()):
            if isinstance(v, ClassInfo) and v.module is m and v.dc is not None:
                out.append(v)
    chk.require(len(out) >= 9, f"only {len(out)} dataclasses found")
    for c in out:
        chk.instance("R13.1")
        key = f"{c.module.name}:{c.name}"
        dc = c.dc
        if dc.get("eq", True) is False:
            chk.fail("R13.1", key + ":eq", f"{c.name}: dataclass eq disabled — instances compare by identity")
            continue
        hashed = bool(dc.get("unsafe_hash")) or (bool(dc.get("frozen")) and dc.get("eq", True))
        user_hash = "__hash__" in c.ns
        if not hashed and not user_hash:
            chk.fail("R13.1", key + ":hash", f"{c.name}: eq=True without unsafe_hash/frozen makes instances unhashable (__hash__ = None)")
            continue
        cmpf = {f[0] for f in c.all_fields() if f[2]}
        hashf = {f[0] for f in c.all_fields() if (f[3] if f[3] is not None else f[2])}
        if cmpf != hashf and not user_hash:
            chk.fail("R13.1", key + ":fields", f"{c.name}: fields in __eq__ {sorted(cmpf)} differ from fields in __hash__ {sorted(hashf)}")
        else:
            chk.ok("R13.1", key=c.name)
    return out


def handwritten(chk, it):
    n = 0
    for mn in ["dep_logic.specifiers.special", "dep_logic.markers.any", "dep_logic.markers.empty", "dep_logic.utils", "dep_logic.specifiers.base", "dep_logic.markers.base"]:
        m = it.module(mn)
        for name, v in list(m.ns.items()):
            if isinstance(v, ClassInfo) and v.module is m and "__eq__" in v.ns and v.dc is None:
                n += 1
                chk.instance("R13.2")
                if "__hash__" not in v.ns:
                    chk.fail("R13.2", f"{mn}:{name}.__hash__", f"{name} defines __eq__ without __hash__ (instances become unhashable)")
                else:
                    chk.ok("R13.2", key=("has-hash", name))
    chk.require(n >= 4, f"only {n} hand-written __eq__ classes found")


def spec_matrix(chk, src, K):
    """on opaque tokens; if hashing/equality inspects versions beyond comparison (e.g. hash(str(self))) the order-only domain
    aborts and the matrix is computed on concrete version pools with equal-but-differently-spelled twins instead."""
    from .. import specalg
    from ..absint import AnalysisError
    try:
        return _spec_matrix(chk, src, K)
    except AnalysisError as e:
        if "version token" not in str(e):
            raise
        chk.notes.append(f"R13.2: order-only lemma broken in __eq__/__hash__ ({e}); specifier matrix recomputed on concrete version pools with twins")
    total = 0
    try:
        for pool in specalg.FALLBACK_POOLS:
            specalg.ACTIVE_POOL = tuple(pool)
            total += _spec_matrix(chk, src, K)
    finally:
        specalg.ACTIVE_POOL = None
    return total


def _spec_matrix(chk, src, K):
    dom = get_domain(src, K)
    it = dom.it
    ops = dom.operands
    hs = []
    for la, va, a in ops:
        hs.append(it.py_hash(a))
    n = 0
    eqm = {}
    for i, (la, va, a) in enumerate(ops):
        for j, (lb, vb, b) in enumerate(ops):
            n += 1
            try:
                r, _ = a.cls.lookup("__eq__")
                e = it.py_eq(a, b)
            except PyRaise as ex:
                chk.fail("R13.2", f"{a.cls.module.name}:{a.cls.name}.__eq__:raises", f"{la} == {lb} raises {ex.exc!r}")
                continue
            eqm[(i, j)] = e
    for (i, j), e in eqm.items():
        a, b = ops[i], ops[j]
        if i == j and not e:
            chk.fail("R13.2", f"{a[2].cls.module.name}:{a[2].cls.name}.__eq__:reflexive", f"{a[0]} != itself")
        if e != eqm.get((j, i)):
            chk.fail("R13.2", f"{a[2].cls.module.name}:{a[2].cls.name}.__eq__:symmetry", f"{a[0]} == {b[0]} is {e} but the reverse is {eqm.get((j, i))}")
        if e and hs[i] != hs[j]:
            pair = "/".join(sorted([a[2].cls.name, b[2].cls.name]))
            chk.fail("R13.2", f"dep_logic.specifiers:{pair}:eq-without-equal-hash",
                     f"{a[0]} ({a[2].cls.name}) == {b[0]} ({b[2].cls.name}) but their hashes are computed differently "
                     f"({_hd(hs[i])} vs {_hd(hs[j])}) — equal objects must hash equal", {"a": a[0], "b": b[0]})
        elif e:
            chk.ok("R13.2", key=("spec-eq-hash", i, j), nontrivial=i != j)
    # transitivity
    idx = range(len(ops))
    for i in idx:
        for j in idx:
            if eqm.get((i, j)):
                for k in idx:
                    if eqm.get((j, k)) and not eqm.get((i, k)):
                        chk.fail("R13.2", "dep_logic.specifiers:__eq__:transitivity", f"{ops[i][0]} == {ops[j][0]} == {ops[k][0]} but not {ops[i][0]} == {ops[k][0]}")
    chk.instance("R13.2", n)
    return n


def _hd(h):
    s = repr(h)
    return s if len(s) < 60 else s[:57] + "..."


def marker_universe(chk):
    """R13.2 / R13.4 on the explored marker universe (atoms in both operand orders for operators WITH a converse)."""
    dom = mx.domain(str(chk.src))
    it = dom.it
    keys, _ = mx.collect_universe(chk, limit=250 if chk.tier == "quick" else 1500, budget2=300 if chk.tier == "quick" else 3000)
    objs = []
    for k in keys:
        try:
            objs.append(mx.rebuild(dom, k))
        except PyRaise:
            continue
    # the same members in a different order, flat and nested (equality of compounds is order-sensitive by construction; whatever
    # __eq__ says, equal objects must hash equal)
    X = ("ME", "os_name", "==", "a", False)
    Y = ("ME", "sys_platform", "!=", "b", False)
    Z = ("ME", "python_version", ">=", "3.8", False)
    for kind in ("MarkerUnion", "MultiMarker"):
        other = "MultiMarker" if kind == "MarkerUnion" else "MarkerUnion"
        for k in ((kind, X, Y), (kind, Y, X), (kind, X, Y, Z), (kind, Z, Y, X), (kind, Y, Z, X), (other, (kind, X, Y), Z), (other, (kind, Y, X), Z),
                  (other, Z, (kind, X, Y))):
            try:
                objs.append(mx.rebuild(dom, k))
            except PyRaise:
                pass
    # equal-but-differently-built twins: reversed spelling (operators with a converse), attached specifier cache
    twins = []
    for (name, op, value) in (("os_name", "==", "a"), ("os_name", "!=", "b"), ("python_version", ">", "3.8"), ("python_version", "<=", "3.7"),
                              ("python_full_version", ">=", "3.7.2")):
        a = dom.atom(name, op, value)
        rev_op = CONVERSE[op]
        b = dom.atom(name, rev_op, value, literal_left=True)   # "value" rev_op name  ==  name op "value"
        c = dom.atom(name, op, value)
        it.getattr(c, "specifier")  # attach the lazy cache
        twins += [a, b, c]
    objs += twins
    n = 0
    hs = [it.py_hash(o) for o in objs]
    dens = [dom.den(o) for o in objs]
    buckets = {}
    for i, o in enumerate(objs):
        buckets.setdefault(hs[i], []).append(i)
    for i, a in enumerate(objs):
        # compare against everything with the same class (cheap) and all twins
        for j, b in enumerate(objs):
            if j <= i or (a.cls is not b.cls and hs[i] != hs[j]):
                continue
            n += 1
            e1, e2 = it.py_eq(a, b), it.py_eq(b, a)
            if e1 != e2:
                chk.fail("R13.2", f"{a.cls.module.name}:{a.cls.name}.__eq__:symmetry", f"{dom.show(a)} == {dom.show(b)} is {e1}, reverse {e2}")
            elif e1:
                if hs[i] != hs[j]:
                    chk.fail("R13.2", f"{a.cls.module.name}:{a.cls.name}:eq-without-equal-hash", f"{dom.show(a)} == {dom.show(b)} but hashes differ")
                elif dens[i] != dens[j]:
                    chk.fail("R13.4", f"{a.cls.module.name}:{a.cls.name}:equal-not-interchangeable",
                             f"{dom.show(a)} == {dom.show(b)} but they denote different environment sets (differ at {dom.first_diff(dens[i], dens[j])})")
                else:
                    chk.ok("R13.4", key=(i, j))
    chk.instance("R13.4", n)
    return n, len(objs)


def uncompared_fields(chk, it, dcs):
    """R13.3: classify reads of every compare=False field."""
    fields = []
    for c in dcs:
        for f in c.fields:
            if not f[2]:
                fields.append((c, f[0]))
    if not fields:
        chk.notes.append("R13.3: no dataclass field is excluded from comparison any more; the clause is vacuous")
    reads = {fn: [] for _, fn in fields}
    for rel, tree in iter_sources(chk):
        qm = qualname_map(tree)
        for node, q in qm.items():
            if not isinstance(node, ast.FunctionDef):
                continue
            for n in ast.walk(node):
                if isinstance(n, ast.Attribute) and isinstance(n.ctx, ast.Load) and n.attr in reads:
                    reads[n.attr].append((rel, q))
    from ..rules_tables import probe_reflect_map
    refl = probe_reflect_map(chk, it)
    for c, fname in fields:
        chk.instance("R13.3")
        sites = sorted({q for rel, q in reads[fname] if rel.split("/")[-1][:-3] in c.module.name})
        kinds = set()
        for q in sites:
            leaf = q.split(".")[-1]
            if leaf in ("__str__", "_simplified_form", "__repr__", "is_simple"):
                kinds.add("presentation")
            elif leaf in (fname.lstrip("_"), "specifier") or leaf == fname:
                kinds.add("cache")
            elif leaf in ("_evaluate", "evaluate", "__and__", "__or__", "__invert__", "__contains__", "contains", "__eq__", "__hash__"):
                kinds.add("semantic")
            else:
                kinds.add(f"other:{leaf}")
        key = f"{c.module.name}:{c.name}.{fname}"
        if "semantic" in kinds:
            noconv = sorted(op for op, r in refl.items() if op not in CONVERSE and r == op and op not in ("==", "!="))
            # the flag swaps operands and replaces op by reflect(op); sound only if reflect is the converse for every operator
            if noconv:
                chk.fail("R13.3", key + ":semantic-field-outside-eq",
                         f"{c.name}.{fname} is excluded from __eq__/__hash__ but read by {[s for s in sites if s.split('.')[-1] in ('_evaluate', 'evaluate')]}: "
                         f"objects differing only in {fname} compare equal yet evaluate differently for operators without a converse {noconv}")
            else:
                chk.ok("R13.3", key=(c.name, fname, "semantic-neutral"))
        elif any(k.startswith("other:") for k in kinds):
            chk.notes.append(f"R13.3: {c.name}.{fname} (compare=False) is also read in {[k[6:] for k in kinds if k.startswith('other:')]}; "
                             f"not classifiable syntactically — interchangeability of equal objects is then covered only by R13.4")
            chk.ok("R13.3", key=(c.name, fname, "unclassified"), nontrivial=False)
        else:
            chk.ok("R13.3", key=(c.name, fname, "+".join(sorted(kinds)) or "unused"))
    chk.analysed["uncompared_fields"] = [f"{c.name}.{f}" for c, f in fields]


def run(chk):
    src = str(chk.src)
    chk.explanation = (
        "Class-table rules (dataclass eq/hash field sets, hand-written __eq__/__hash__ pairs), def-use classification of fields excluded "
        "from comparison, and ABSINT of == / modelled hash over the complete specifier operand domain (K tokens, both universal spellings) "
        "and the explored marker universe (incl. equal-but-differently-built twins).")
    chk.rule("R13.1", "dataclass __eq__ fields == __hash__ fields", min_instances=9)
    chk.rule("R13.2", "== reflexive/symmetric/transitive and compatible with hash", min_instances=4)
    chk.rule("R13.3", "fields outside __eq__ are caches or presentation hints, never semantic", min_instances=4)
    chk.rule("R13.4", "equal markers denote the same environments")
    it = Interp(src)
    dcs = dataclass_table(chk, it)
    handwritten(chk, it)
    n1 = spec_matrix(chk, src, 2 if chk.tier == "quick" else 3)
    n2, nobj = marker_universe(chk)
    # state attached outside __eq__/__hash__ must agree with the compared fields on every operator result (rule R-seeded of the exploration)
    st = mx.explore(chk, "collect", budget2=400 if chk.tier == "quick" else 5000)
    chk.analysed["operator_results_checked_for_attached_state"] = st["level1_ops"] + st["level2_ops"]
    uncompared_fields(chk, it, dcs)
    chk.exhaustive = False
    chk.analysed.update({"dataclasses": [c.name for c in dcs], "specifier_eq_pairs": n1, "marker_objects": nobj, "marker_pairs_compared": n2})
    chk.sample({"pair": "AnySpecifier() vs RangeSpecifier()", "checked": "== both ways, hash equality"})
    chk.trusted += ["hash model of vsa/absint.py:py_hash (structural: two hashes are equal only if computed by the same formula on equal parts)"]
