"""C11 — marker <-> specifier bridge preserves meaning for Python-version atoms (DESIGN.md §4 C11).

  R11.1 (bounded ABSINT) for python_version / python_full_version atoms over operator x value-shape classes (incl. ~=, wildcards,
        in / not in lists): `v in atom.specifier` (interpreted) == atom.evaluate({name: v}) (interpreted) for every candidate version.
  R11.2 MarkerExpression.from_specifier(name, spec) for every simple specifier (single comparison, ~=, ==X.*, !=V, !=X.*) returns
        None or an atom with atom.evaluate({name: v}) == (v in spec); Any/Empty for universal/empty specifiers.
  R11.3 routing table of _get_specifier: exactly the version-like names are parsed as versions.
"""
from __future__ import annotations

import ast

from ..absint import AObj, Bound, MISSING, PyRaise
from .. import markexplore as mx
from ..markdomain import MarkerDomain

PV_C = ["2.7", "3.0", "3.1", "3.2", "3.6", "3.7", "3.8", "3.9", "3.10", "3.11", "3.20", "4.0"]
PFV_C = ["2.7.18", "3.0.0", "3.1.0", "3.1.5", "3.2.0", "3.6.9", "3.7.0", "3.7.1", "3.7.2", "3.7.3", "3.8.0", "3.9.9", "3.10.0", "3.10.1", "3.11.0", "3.20.0", "4.0.0"]


def atoms():
    out = []
    for op in ("<", "<=", "==", "!=", ">=", ">"):
        for v in ("3", "3.7", "3.10"):
            out.append(("python_version", op, v))
        for v in ("3.7", "3.7.2", "3.10.0"):
            out.append(("python_full_version", op, v))
    out += [("python_version", "~=", "3.7"), ("python_version", "==", "3.*"), ("python_version", "!=", "3.*"),
            ("python_version", "in", "3.7, 3.8"), ("python_version", "not in", "3.7, 3.8"), ("python_version", "in", "3.10"),
            ("python_version", "not in", "3.10,3.11"), ("python_version", "in", "3.7"),
            ("python_full_version", "~=", "3.7.2"), ("python_full_version", "~=", "3.7"), ("python_full_version", "==", "3.7.*"),
            ("python_full_version", "!=", "3.7.*"), ("python_full_version", "in", "3.7.2, 3.8.0"), ("python_full_version", "not in", "3.7.2"),
            # the same wildcard / comparison atoms spelled with an extra zero segment (equal as PEP 440 versions, different prefix length or text):
            # an equality-keyed memo must not hand one spelling's bounds to the other
            ("python_version", "!=", "3.0.*"), ("python_version", "==", "3.0.*"), ("python_full_version", "!=", "3.7.0.*"), ("python_full_version", "==", "3.7.0.*"),
            ("python_full_version", "~=", "3.7.0"), ("python_full_version", ">=", "3.7.0"), ("python_version", "~=", "3.7.0")]
    return out


SIMPLE = [">=3.7", ">3.7", "<3.7", "<=3.7", "==3.7", "!=3.7", "~=3.7", "==3.*", "!=3.*", "==3.7.*", "!=3.7.*", ">=3.7.2", "<3.10.1", "~=3.7.2",
          "==3.7.2", "!=3.7.2", ">=3", "<4", ">=3.7,<3.8", ">=3.7,<4.0", ">=3.7.0,<3.8.0", "<3.7||>=3.8", "<3.7||>3.7", "",
          ">=3.10.0", "==3.10.0", "!=3.10.0", "<3.10.0", "<=3.20.0", ">3.0.0", ">=3.10", "<3.100.0", "==3.10.*", "~=3.10.0",
          "!=3.0.*", "==3.0.*", "!=3.7.0.*", "==3.7.0.*", "~=3.7.0"]

# structured family: two-sided ranges over every combination of bound spellings (segment counts differ between the bounds, trailing zeros,
# one-segment bounds) — the shapes the shortened renderings (`~=`, `==X.*`) are computed from
for _lo in ("3", "3.7", "3.7.0", "3.7.2"):
    for _hi in ("3.8", "3.8.0", "4", "4.0", "4.0.0", "3.7.3", "3.10", "3.10.0"):
        for _o1 in (">=", ">"):
            for _o2 in ("<", "<="):
                _t = f"{_o1}{_lo},{_o2}{_hi}"
                if _t not in SIMPLE:
                    SIMPLE.append(_t)


def run(chk):
    chk.explanation = (
        "Bounded ABSINT of MarkerExpression.specifier/_get_specifier, from_specifier and evaluate from source (packaging replaced by the "
        "PEP 440 model): the two views of a Python-version atom must agree on every candidate interpreter version.")
    chk.rule("R11.1", "specifier view of an atom admits exactly the values for which the atom evaluates true")
    chk.rule("R11.2", "from_specifier yields None or an atom equivalent to the specifier")
    chk.rule("R11.3", "version-like routing table", min_instances=1)
    dom = mx.domain(str(chk.src))
    it = dom.it
    FN = "dep_logic.markers.single:MarkerExpression"
    n = 0
    # prime: the specifier view of the *other* version-like variables is computed first for every (operator, value) text, so that a
    # cache that forgets the variable name (the list expansion differs per variable) hands a foreign specifier to the atoms under test
    for (name, op, value) in atoms():
        for other in ("python_full_version", "platform_release", "python_version"):
            if other != name:
                try:
                    it.getattr(dom.atom(other, op, value), "specifier")
                except PyRaise:
                    pass
    for (name, op, value) in atoms():
        a = dom.atom(name, op, value)
        cands = PV_C if name == "python_version" else PFV_C
        try:
            spec = it.getattr(a, "specifier")
        except PyRaise as e:
            chk.fail("R11.1", f"{FN}._get_specifier:{name}:{op}", f"specifier of {dom.show(a)} raises {e.exc!r}")
            continue
        for v in cands:
            n += 1
            try:
                inspec = it.truth(it.contains(spec, v))
                ev = dom.evaluate(a, {name: v})
            except PyRaise as e:
                chk.fail("R11.1", f"{FN}:{name}:{op}:raises", f"{dom.show(a)} at {v}: {e.exc!r}")
                break
            if inspec != ev:
                shape = "list" if op in ("in", "not in") else "wildcard" if "*" in value else f"{len(value.split('.'))}seg"
                if shape == "list":
                    elems = [x.strip() for x in value.split(",")]
                    if (v in value) != (v in elems):
                        # PEP 508 evaluates `in` as substring containment; the specifier view reads a version list
                        shape = "list:substring-vs-element"
                chk.fail("R11.1", f"{FN}._get_specifier:{name}:{op}:{shape}",
                         f"{dom.show(a)}: `{v!r} in marker.specifier` is {inspec} but evaluate({{{name!r}: {v!r}}}) is {ev}",
                         {"atom": dom.show(a), "candidate": v})
                continue
            chk.ok("R11.1", key=(name, op, value, v))
    for text, name in (('"3.8" <= python_version', "python_version"), ('"3.8" >= python_version', "python_version"), ('"3.8" < python_version', "python_version"),
                       ('"3.8" > python_version', "python_version"), ('"3.7.2" <= python_full_version', "python_full_version"),
                       ('"3.7.2" >= python_full_version', "python_full_version"), ('"3.7.2" < python_full_version', "python_full_version"),
                       ('"3.7.2" > python_full_version', "python_full_version"), ('"3.7.2" == python_full_version', "python_full_version"),
                       ('"3.8" != python_version', "python_version")):
        try:
            a = dom.parse(text)
            spec = it.getattr(a, "specifier")
        except PyRaise as e:
            chk.fail("R11.1", f"{FN}:literal-left:raises", f"{text!r}: {e.exc!r}")
            continue
        for v in (PV_C if name == "python_version" else PFV_C):
            n += 1
            try:
                inspec = it.truth(it.contains(spec, v))
                ev = dom.evaluate(a, {name: v})
            except PyRaise as e:
                chk.fail("R11.1", f"{FN}:literal-left:raises", f"{text!r} at {v}: {e.exc!r}")
                break
            if inspec != ev:
                chk.fail("R11.1", f"{FN}._get_specifier:{name}:literal-left", f"{text!r}: `{v!r} in marker.specifier` is {inspec} but evaluate({{{name!r}: {v!r}}}) is {ev}")
                break
            chk.ok("R11.1", key=(text, v))
    chk.rules["R11.1"]["instances"] += n
    # R11.2
    pvs = it.resolve(it.module("dep_logic.specifiers").ns["parse_version_specifier"])
    fs, _ = dom.ME.lookup("from_specifier")
    chk.require(fs is not MISSING, "anchor MarkerExpression.from_specifier missing")
    k = 0
    for text in SIMPLE:
        spec = it.call(pvs, [text], {})
        for name, cands in (("python_version", PV_C), ("python_full_version", PFV_C)):
            k += 1
            try:
                m = it.call(Bound(fs, dom.ME), [name, spec], {})
            except PyRaise as e:
                chk.fail("R11.2", f"{FN}.from_specifier:raises", f"from_specifier({name!r}, {text!r}) raises {e.exc!r}")
                continue
            if m is None:
                chk.ok("R11.2", key=(name, text, "None"), nontrivial=False)
                continue
            bad = None
            for v in cands:
                try:
                    ev = dom.evaluate(m, {name: v})
                    ins = it.truth(it.contains(spec, v))
                except PyRaise as e:
                    bad = f"raises {e.exc!r} at {v}"
                    break
                if ev != ins:
                    bad = f"evaluates to {ev} at {v} while `{v!r} in spec` is {ins}"
                    break
            opk = text[:2] if text[:2] in ("~=", "==", "!=", ">=", "<=") else text[:1]
            if bad:
                chk.fail("R11.2", f"{FN}.from_specifier:{name}:{opk}{'*' if '*' in text else ''}",
                         f"from_specifier({name!r}, {text!r}) -> {dom.show(m)} {bad}")
            else:
                chk.ok("R11.2", key=(name, text))
    chk.rules["R11.2"]["instances"] += k
    # R11.3 routing
    sm = dom.Single
    tbl = it.getattr(sm, "_VERSION_LIKE_MARKER_NAME") if True else None
    chk.instance("R11.3")
    want = {"python_version", "python_full_version", "platform_release"}
    got = set(tbl)
    if not {"python_version", "python_full_version"} <= got:
        chk.fail("R11.3", "dep_logic.markers.single:SingleMarker._VERSION_LIKE_MARKER_NAME", f"version-like names are {sorted(got)}; python_version/python_full_version must be parsed as versions")
    elif got - want:
        chk.fail("R11.3", "dep_logic.markers.single:SingleMarker._VERSION_LIKE_MARKER_NAME", f"non-version variables routed to version parsing: {sorted(got - want)}")
    else:
        chk.ok("R11.3", key="routing")
    chk.exhaustive = True
    chk.analysed = {"atoms": len(atoms()), "atom_candidate_pairs": n, "from_specifier_cases": k}
    chk.sample({"atom": 'python_version ~= "3.7"', "candidates": PV_C})
    chk.trusted += ["PEP 440/508 model (vsa/pkgmodel.py)"]
    chk.assumptions += ["values X / X.Y for python_version and X.Y / X.Y.Z for python_full_version, as the property states"]
