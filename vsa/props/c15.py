"""C15 — marker results are in normal form (DESIGN.md §4 C15).

  R15.1 (bounded ABSINT) every result of & / | over the level-1 (exhaustive) and level-2 (seeded sample) operand pairs of
        vsa/markexplore.py is empty, universal, a single atom / atom group, or a compound with >= 2 distinct children none
        of which is empty, universal or a compound of the same kind (recursively).
  R15.4 the same for only()/exclude()/without_extras() results;  R15.5 for parse_marker(str(m)).
  R15.2/R15.3 (RULES) exit shapes of `of` and the flattening class of each compound constructor.
"""
from __future__ import annotations

from .. import markexplore as mx
from .. import markprops  # noqa: F401  (registers judges)
from ..rules_markers import of_exit_shapes, flatten_classes


def run(chk):
    chk.explanation = (
        "Bounded ABSINT of the marker operators (see C02) judging the *shape* of every returned object against the normal form, "
        "plus syntax-directed rules on MultiMarker.of/MarkerUnion.of exits and constructor flattening. Decides the shape of results "
        "within the explored vocabulary; arbitrary trees are not decided.")
    chk.rule("R15.1", "results of & and | are in normal form")
    chk.rule("R15.4", "results of only/exclude/without_extras are in normal form")
    chk.rule("R15.5", "parse_marker(str(m)) is in normal form")
    chk.rule("R15.2", "exit shapes of MultiMarker.of / MarkerUnion.of", min_instances=2)
    chk.rule("R15.3", "each compound constructor flattens its own class", min_instances=2)
    stats = mx.explore(chk, "c15")
    total = stats["level1_ops"] + stats["level2_ops"]
    chk.rules["R15.1"]["instances"] += total
    keys, ndistinct = mx.collect_universe(chk, limit=1200 if chk.tier == "quick" else 20000)
    u = mx.phase_u(chk, keys, "c15")
    chk.rules["R15.4"]["instances"] += u["n"]
    bad = len(chk.violations) + len(chk.known_hits)
    good = max(0, total + u["n"] - bad)
    chk.obligations += good
    chk.discharged += good
    chk.evaluations += good
    chk.nontrivial.update(("R15", i) for i in range(stats["nontrivial"] + u["nontriv"]))
    of_exit_shapes(chk, "R15.2")
    flatten_classes(chk, "R15.3")
    stats.update({"phaseU_markers": len(keys), "phaseU_calls": u["n"], "distinct_level1_results": ndistinct})
    chk.analysed = stats
    chk.exhaustive = False
    chk.trusted += ["PEP 440/508 model of packaging (vsa/pkgmodel.py)"]
    chk.assumptions += ["operands within the vocabulary of vsa/markexplore.py"]
