"""C15 — marker results are in normal form (DESIGN.md §4 C15).

  R15.1 (bounded ABSINT) every result of & / | over the level-1 (exhaustive) and level-2 (seeded sample) operand pairs of
        vsa/markexplore.py is empty, universal, a single atom / atom group, or a compound with >= 2 distinct children none
        of which is empty, universal or a compound of the same kind (recursively).
  R15.4 the same for only()/exclude()/without_extras() results;  R15.5 for parse_marker(str(m)).
  R15.2/R15.3 (RULES) exit shapes of `of` and the flattening class of each compound constructor.
"""
from __future__ import annotations

from ..absint import PyRaise
from .. import markexplore as mx
from .. import markprops  # noqa: F401  (registers judges)
from ..rules_markers import of_exit_shapes, flatten_classes


def _texts_work(task):
    src, texts = task
    dom = mx.domain(src)
    fails, n = [], 0
    for text in texts:
        try:
            m = dom.parse(text, budget=mx.STEP_BUDGET)
        except PyRaise:
            continue
        except Exception as e:
            if "step budget" in str(e):
                continue
            raise
        n += 1
        why = dom.normal_form(m)
        if why:
            fails.append(("R15.5", dom.blame("dep_logic.markers:_build_markers"), f"parse_marker({text!r}) -> {dom.show(m)} is not in normal form: {why}",
                          {"text": text, "path": dom.path()}))
    return {"fails": fails, "n": n}


def _of_work(task):
    """R15.6: the public classmethods MultiMarker.of / MarkerUnion.of on compounds sharing a child."""
    src, triples = task
    dom = mx.domain(src)
    it = dom.it
    fails, n = [], 0
    from ..absint import Bound
    for kx, ky, kz in triples:
        x, y, z = mx.rebuild(dom, kx), mx.rebuild(dom, ky), mx.rebuild(dom, kz)
        for outer, inner in ((dom.MM, dom.MU), (dom.MU, dom.MM)):
            try:
                c = it.construct(inner, [x, y], {})
                d = it.construct(inner, [x, z], {})
                f, _ = outer.lookup("of")
                it.trace.clear()
                it.steps = 0
                it.max_steps = mx.STEP_BUDGET
                r = it.call(Bound(f, outer), [c, d], {})
            except PyRaise:
                continue
            except Exception as e:
                if "step budget" in str(e):
                    continue
                raise
            finally:
                it.max_steps = None
            n += 1
            why = dom.normal_form(r)
            if why:
                fails.append(("R15.6", dom.blame(f"{outer.module.name}:{outer.name}.of"),
                              f"{outer.name}.of({dom.show(c)}, {dom.show(d)}) -> {dom.show(r)} is not in normal form: {why}", {"path": dom.path()}))
    return {"fails": fails, "n": n}


def of_classmethods(chk):
    import random
    from ..specalg import parallel
    dom = mx.domain(str(chk.src))
    atoms = [dom.key(a) for _, a in mx.build_atoms(dom, chk.tier)]
    by_var = {}
    for k in atoms:
        by_var.setdefault(k[1], []).append(k)
    fam = []
    for var, ys in by_var.items():
        xs = [k for k in atoms if k[1] != var and not (k[1].startswith("python") and var.startswith("python"))]
        for y in ys:
            for z in ys:
                if y != z:
                    for x in xs:
                        fam.append((x, y, z))
    rnd = random.Random(chk.seed + 1)
    rnd.shuffle(fam)
    fam = fam[: (800 if chk.tier == "quick" else 10000)]
    src = str(chk.src)
    per = max(1, (len(fam) + chk.jobs * 3 - 1) // (chk.jobs * 3))
    total = 0
    for r in parallel(_of_work, [(src, fam[i:i + per]) for i in range(0, len(fam), per)], chk.jobs):
        total += r["n"]
        for f in r["fails"]:
            chk.fail(*f)
    return total


def parsed_texts(chk):
    import random
    from ..specalg import parallel
    from .c03 import atom_texts
    atoms = [t for t in atom_texts() if not any(f'" {o} ' in t for o in ("in", "not in", "~="))]   # no-converse literal-left atoms: see C03/C13 findings
    rnd = random.Random(chk.seed)
    texts = []
    by_var = {}
    for t in atoms:
        var = next(v for v in ("os_name", "sys_platform", "extra", "python_version", "python_full_version") if v in t)
        by_var.setdefault(var, []).append(t)
    fam = []
    for var, ys in by_var.items():
        xs = [t for t in atoms if var not in t and not (var.startswith("python") and "python" in t)]
        for y in ys:
            for z in ys:
                if y != z:
                    for x in xs:
                        fam.append((x, y, z))
    rnd.shuffle(fam)
    for x, y, z in fam[: (600 if chk.tier == "quick" else 6000)]:
        texts.append(f"{x} and {y} or {x} and {z}")
        texts.append(f"({x} or {y}) and ({x} or {z})")
    for _ in range(300 if chk.tier == "quick" else 3000):
        a, b, c = rnd.sample(atoms, 3)
        texts.append(f"{a} and {b} or {c}")
        texts.append(f"{a} or {b} and {c} or {a}")
    src = str(chk.src)
    per = max(1, (len(texts) + chk.jobs * 3 - 1) // (chk.jobs * 3))
    total = 0
    for r in parallel(_texts_work, [(src, texts[i:i + per]) for i in range(0, len(texts), per)], chk.jobs):
        total += r["n"]
        for f in r["fails"]:
            chk.fail(*f)
    return total


def run(chk):
    chk.explanation = (
        "Bounded ABSINT of the marker operators (see C02) judging the *shape* of every returned object against the normal form, "
        "plus syntax-directed rules on MultiMarker.of/MarkerUnion.of exits and constructor flattening. Decides the shape of results "
        "within the explored vocabulary; arbitrary trees are not decided.")
    chk.rule("R15.1", "results of & and | are in normal form")
    chk.rule("R15.4", "results of only/exclude/without_extras are in normal form")
    chk.rule("R15.5", "parse_marker(str(m)) is in normal form")
    chk.rule("R15.2", "exit shapes of MultiMarker.of / MarkerUnion.of", min_instances=2)
    chk.rule("R15.3", "each compound constructor flattens its own class", min_instances=2)
    stats = mx.explore(chk, "c15")
    total = stats["level1_ops"] + stats["level2_ops"]
    chk.rules["R15.1"]["instances"] += total
    keys, ndistinct = mx.collect_universe(chk, limit=1200 if chk.tier == "quick" else 20000)
    u = mx.phase_u(chk, keys, "c15")
    chk.rules["R15.4"]["instances"] += u["n"]
    bad = len(chk.violations) + len(chk.known_hits)
    good = max(0, total + u["n"] - bad)
    chk.obligations += good
    chk.discharged += good
    chk.evaluations += good
    chk.nontrivial.update(("R15", i) for i in range(stats["nontrivial"] + u["nontriv"]))
    # R15.5 on generated TEXTS (the parser calls MarkerUnion.of directly, a path `|` does not take)
    n_texts = parsed_texts(chk)
    chk.rules["R15.5"]["instances"] += n_texts
    chk.rule("R15.6", "MultiMarker.of / MarkerUnion.of on compounds sharing a child return normal forms")
    chk.rules["R15.6"]["instances"] += of_classmethods(chk)
    of_exit_shapes(chk, "R15.2")
    flatten_classes(chk, "R15.3")
    stats.update({"phaseU_markers": len(keys), "phaseU_calls": u["n"], "distinct_level1_results": ndistinct})
    chk.analysed = stats
    chk.exhaustive = False
    chk.trusted += ["PEP 440/508 model of packaging (vsa/pkgmodel.py)"]
    chk.assumptions += ["operands within the vocabulary of vsa/markexplore.py"]
