"""C04 — specifier membership agrees with PEP 440 through the whole algebra (DESIGN.md §4 C04).

  R04.1 EmptySpecifier contains nothing, AnySpecifier everything (interpreted __contains__ on every candidate).
  R04.2 (bounded ABSINT) for expression trees over a leaf pool of PEP 440 specifier strings (all operators, wildcards,
        compatible release, comma-joined, pre/post/dev bounds, === leaves) combined with &, |, ~ (depth <= 2) and every
        final-release candidate v:  `v in result` (interpreted: contains -> to_specifierset -> str -> SpecifierSet model)
        equals the same Boolean combination of the PEP 440 operator table on the leaves; trees with === leaves satisfy the
        equation or raise ValueError.
  R04.3 the bound values produced by _from_pkg_specifier's arithmetic equal the PEP 440 table on the text-shape grammar.
Not decided: agreement with packaging's implementation for pre/post/dev candidates (outside the property's claim).
"""
from __future__ import annotations

import itertools
import random

from ..absint import AObj, PyRaise
from ..specalg import parallel
from .. import pkgmodel, pkgspec
from ..verdomain import VerDomain
from .c06 import form_key, roundtrip, dom

LEAVES = [">=1.0", ">1.0", "<2.0", "<=2.0", "==1.5", "!=1.5", "~=1.4", "~=1.4.2", "==1.*", "!=1.*", "==1.4.*", "!=1.4.*",
          ">=1.0,<2.0", ">1.4,!=1.5,<3", ">1.0a1", "<2.0.post1", ">=1.4.dev1", "<1.5rc1", ">=1!0.5", "<1!1", "==1.5.0", "===1.5", "===1.5.0",
          # multi-range unions whose outermost bounds coincide (with the other inclusivity) with bounds of other leaves
          ">=1.0,<1.4||>=1.5,<=2.0", "<1.0||==1.5||>2.0", ">1.0,<=1.4||>=2.0", "<=1.0||>=1.4.2,<1.5||>=3.0",
          # upper bounds with more release segments than the lower one, zero then non-zero (where a `~=` shortening must not fire)
          "<2.0.1", ">=1.4", "<1.5.0.5", ">=1.4.2,<1.5.0.1"]
CANDS = ["0.9", "1.0", "1.0.1", "1.4", "1.4.2", "1.4.3", "1.5", "1.5.0", "1.5.1", "1.9", "2.0", "2.0.1", "3.0", "1!0.5", "1!1.0"]


def leaf_truth(text, v):
    if "||" in text:
        return any(leaf_truth(t, v) for t in text.split("||"))
    ss = pkgmodel.SpecifierSetVal(text)
    return ss.sym_contains(v)


def _work(task):
    src, tier, seed, lo, hi = task
    d = dom(src)
    fails, n, raised, samples = [], 0, 0, []
    leaves = [(t, d.parse(t)) for t in LEAVES]
    truth = {t: [leaf_truth(t, c) for c in CANDS] for t in LEAVES}
    rnd = random.Random(seed * 31 + lo)

    def judge(expr, build, exp, arb):
        nonlocal n, raised
        n += 1
        try:
            r = build()
        except PyRaise as e:
            if arb and d.exc_name(e) == "ValueError":
                raised += 1
                return
            fails.append(("R04.2", d.blame("dep_logic.specifiers"), f"{expr} raises {d.exc_name(e)}", {"path": d.path()}))
            return
        for c, e_ in zip(CANDS, exp):
            try:
                got = d.contains(r, c)
            except PyRaise as e:
                if arb and d.exc_name(e) == "ValueError":
                    raised += 1
                    return
                fails.append(("R04.2", d.blame(f"{r.cls.module.name}:{r.cls.name}.contains"), f"`{c} in ({expr})` raises {d.exc_name(e)} (result {d.show(r)})", None))
                return
            if got != e_:
                key = _key(d, r)
                fails.append(("R04.2", key, f"`{c} in ({expr})` is {got}, the PEP 440 combination of the leaves is {e_}; result object {d.show(r)} renders as {_txt(d, r)!r}",
                              {"expr": expr, "candidate": c}))
                return
        if len(samples) < 1 and n % 53 == 1:
            samples.append({"expr": expr, "result": d.show(r)})

    for i in range(lo, hi):
        ta, a = leaves[i]
        arb_a = "===" in ta
        A = truth[ta]
        judge(ta, lambda: a, A, arb_a)
        judge(f"~({ta})", lambda: d.op("~", a), [not x for x in A], arb_a)
        for tb, b in leaves:
            B = truth[tb]
            arb = arb_a or "===" in tb
            judge(f"({ta}) & ({tb})", lambda: d.op("&", a, b), [x and y for x, y in zip(A, B)], arb)
            judge(f"({ta}) | ({tb})", lambda: d.op("|", a, b), [x or y for x, y in zip(A, B)], arb)
            if not arb:
                judge(f"~(({ta}) | ({tb}))", lambda: d.op("~", d.op("|", a, b)), [not (x or y) for x, y in zip(A, B)], arb)
                judge(f"~(({ta}) & ({tb}))", lambda: d.op("~", d.op("&", a, b)), [not (x and y) for x, y in zip(A, B)], arb)
                judge(f"~({ta}) & ({tb})", lambda: d.op("&", d.op("~", a), b), [(not x) and y for x, y in zip(A, B)], arb)
                judge(f"({ta}) | ~({tb})", lambda: d.op("|", a, d.op("~", b)), [x or (not y) for x, y in zip(A, B)], arb)
                cs = leaves if tier == "thorough" else [leaves[rnd.randrange(len(leaves))] for _ in range(2)]
                for tc, c in cs:
                    if "===" in tc:
                        continue
                    C = truth[tc]
                    judge(f"(({ta}) & ({tb})) | ({tc})", lambda: d.op("|", d.op("&", a, b), c), [(x and y) or z for x, y, z in zip(A, B, C)], arb)
                    judge(f"~((({ta}) | ({tb})) | ({tc}))", lambda: d.op("~", d.op("|", d.op("|", a, b), c)), [not (x or y or z) for x, y, z in zip(A, B, C)], arb)
                    judge(f"({tc}) | ~(({ta}) & ({tb}))", lambda: d.op("|", c, d.op("~", d.op("&", a, b))), [z or not (x and y) for x, y, z in zip(A, B, C)], arb)
                    judge(f"~(({ta}) & ({tb})) & ({tc})", lambda: d.op("&", d.op("~", d.op("&", a, b)), c), [(not (x and y)) and z for x, y, z in zip(A, B, C)], arb)
                    judge(f"({tc}) & ~(({ta}) | ({tb}))", lambda: d.op("&", c, d.op("~", d.op("|", a, b))), [z and not (x or y) for x, y, z in zip(A, B, C)], arb)
                    judge(f"(({ta}) | ({tb})) & ~({tc})", lambda: d.op("&", d.op("|", a, b), d.op("~", c)), [(x or y) and not z for x, y, z in zip(A, B, C)], arb)
    return {"fails": fails, "n": n, "raised": raised, "samples": samples}


def _txt(d, r):
    try:
        return d.text(r)
    except PyRaise:
        return "<str() raises>"


def _key(d, r):
    """blame: if some member range of the result does not survive its own rendering, that rendering form; else the class's contains."""
    rs = [r] if r.cls is d.Range else list(r.f.get("ranges") or ()) if r.cls is d.Union else []
    for x in rs:
        sub = []
        if not roundtrip(d, x, sub, "member"):
            return sub[0][1].replace(".__str__:", ".contains-via-str:")
    return f"{r.cls.module.name}:{r.cls.name}.contains"


def run(chk):
    src = str(chk.src)
    chk.explanation = (
        "Bounded ABSINT: leaves are parsed by the interpreted parse_version_specifier, combined by the interpreted operators, and asked "
        "for membership through the interpreted contains()/__contains__ (which renders and re-parses through the SpecifierSet model); the "
        "answer must equal the Boolean combination of the PEP 440 operator table on the leaves for every final-release candidate. Plus the "
        "PEP 440 bound table of _from_pkg_specifier on a grammar of text shapes.")
    chk.rule("R04.1", "Empty contains nothing / Any contains everything", min_instances=2)
    chk.rule("R04.2", "membership equation over expression trees (=== leaves: equation or ValueError)")
    chk.rule("R04.3", "PEP 440 operator -> bound values of _from_pkg_specifier", min_instances=500)
    d = dom(src)
    for cls, want in ((d.Empty, False), (d.Any, True)):
        o = d.it.construct(cls, [], {})
        chk.instance("R04.1")
        bad = [c for c in CANDS if d.contains(o, c) != want]
        if bad:
            chk.fail("R04.1", f"{cls.module.name}:{cls.name}.__contains__", f"{cls.name}() {'does not contain' if want else 'contains'} {bad[0]!r}")
        else:
            chk.ok("R04.1", key=cls.name, n=len(CANDS))
    n = len(LEAVES)
    tasks = [(src, chk.tier, chk.seed, i, i + 1) for i in range(n)]
    total = raised = 0
    for r in parallel(_work, tasks, chk.jobs):
        total += r["n"]
        raised += r["raised"]
        for f in r["fails"]:
            chk.fail(*f)
        for s in r["samples"]:
            chk.sample(s)
    chk.rules["R04.2"]["instances"] += total
    bad = len(chk.violations) + len(chk.known_hits)
    good = max(0, total - bad)
    chk.obligations += good
    chk.discharged += good
    chk.evaluations += good * len(CANDS)
    chk.nontrivial.update(("R04.2", i) for i in range(good))
    pkgspec.check_numbers(chk, "R04.3")
    chk.exhaustive = chk.tier == "thorough"
    chk.analysed = {"leaves": n, "candidates": len(CANDS), "expressions": total, "arbitrary_equality_raises": raised}
    chk.extra["rule_text"] = "expression = leaf | ~a | a&b | a|b | ~a&b | a|~b | (a&b)|c | (a|b)&~c over the leaf pool; each judged on every candidate"
    chk.trusted += ["PEP 440 operator table on final releases (vsa/pkgmodel.py:contains)"]
    chk.assumptions += ["candidates are final releases only, as the property states"]
