"""C06 — specifier text round-trip (DESIGN.md §4 C06).

  R06.1 (bounded ABSINT) for every specifier over a structured pool of version shapes (release lengths, trailing zeros, pre/post/dev,
        epoch) — half-lines, ranges with every inclusivity, point ranges, complements, two-range unions incl. the != and !=X.* shapes,
        multi-range unions — the interpreted str(s) does not raise, is accepted by the (modelled) SpecifierSet grammar, and
        parse_version_specifier(str(s)) compares equal to s under the interpreted __eq__.
  R06.2 the same for every result of &, |, ~ over pairs of those operands (sampled in quick).
  R06.3 token agreement: the literals the renderers emit ('<empty>', '', '||') are the ones parse_version_specifier dispatches on.
Not decided: acceptance by packaging's real grammar; versions outside the pool's shape classes.
"""
from __future__ import annotations

import ast
import itertools
import random

from ..absint import AObj, AnalysisError, PyRaise
from ..specalg import parallel
from ..verdomain import VerDomain
from ..rules_tables import module_tree

POOL = ["1.0", "1.0.0", "1.0.1b2", "1.0.1", "1.1.dev1", "1.1", "1.1.post1", "1.2.0", "2.0a1", "2.0", "2.post1", "2.0.1", "2.1",
        "2.1.3", "3.9", "3.9.post1", "3.10.0", "4", "1!1.0", "1!1.1", "1!2.0.0",
        # zero-numbered suffixes (falsy ints) and a final two steps above
        "1.2.0.dev0", "1.3.0.post0", "2.0rc0", "1.3",
        # a bound with fewer release segments than its neighbour one step above ("4" vs "4.1" / "4.1.0"), and ~= one level up
        "4.1", "4.1.0", "5"]
_D = {}


def dom(src):
    import os
    k = (str(src), os.getpid())
    if k not in _D:
        _D[k] = VerDomain(src)
    return _D[k]


def operands(d, tier):
    vs = [d.V(t) for t in POOL]
    vs.sort(key=lambda v: v.rank)
    out = []
    for v in vs:
        for inc in (False, True):
            out.append(d.rng(lo=v, il=inc))
            out.append(d.rng(hi=v, ih=inc))
        out.append(d.rng(v, v, True, True))
    for a, b in itertools.combinations(vs, 2):
        if a.rank == b.rank:
            continue
        for il, ih in itertools.product((False, True), repeat=2):
            out.append(d.rng(a, b, il, ih))
    return out, vs


def _feat(v):
    if v is None:
        return "none"
    f = [n for n, on in (("pre", v.pre is not None), ("post", v.post is not None), ("dev", v.dev is not None), ("epoch", v.epoch != 0)) if on]
    return "+".join(f) or "final"


def form_key(d, s, text):
    """finding key: rendered form + shape features of the bounds (never line numbers or concrete digits)."""
    if "||" in text:
        form = "||"
    elif text.startswith("~="):
        form = "~="
    elif text.startswith("!=") and text.endswith(".*"):
        form = "!=X.*"
    elif text.startswith("!="):
        form = "!="
    elif text.startswith("=="):
        form = "=="
    elif "," in text:
        form = "pair"
    else:
        form = "single"
    if s.cls is d.Range:
        if form == "~=":
            return f"{form}:max-{_feat(s.f.get('max'))}"   # the bound the shortened form omits
        return f"{form}:min-{_feat(s.f.get('min'))}:max-{_feat(s.f.get('max'))}"
    if s.cls is d.Union:
        rs = s.f.get("ranges") or ()
        if len(rs) == 2:
            return f"{form}:left.max-{_feat(rs[0].f.get('max'))}:right.min-{_feat(rs[1].f.get('min'))}"
        return f"{form}:{len(rs)}-ranges"
    return form


def roundtrip(d, s, fails, origin):
    """-> True if s round-trips"""
    try:
        text = d.text(s)
    except PyRaise as e:
        fails.append(("R06.1", d.blame(f"{s.cls.module.name}:{s.cls.name}._simplified_form"),
                      f"str() of {d.show(s)} raises {d.exc_name(e)} ({origin})", {"path": d.path()}))
        return False
    where = f"{s.cls.module.name}:{s.cls.name}.__str__:{form_key(d, s, text)}"
    path = d.path()
    try:
        back = d.parse(text)
    except PyRaise as e:
        fails.append(("R06.1", where, f"{d.show(s)} renders as {text!r}, which parse_version_specifier rejects with {d.exc_name(e)} ({origin})",
                      {"text": text, "path": path}))
        return False
    if not d.eq(back, s):
        if s.cls is d.Union and "||" in text:
            # a plain ||-join: attribute the loss to the member range(s) that do not round-trip themselves
            sub = []
            member_bad = False
            for r in s.f.get("ranges") or ():
                if not roundtrip(d, r, sub, origin + " [member]"):
                    member_bad = True
            if member_bad:
                fails.extend(sub)
                return False
        fails.append(("R06.1", where, f"{d.show(s)} renders as {text!r}, which parses back to {d.show(back)} ({origin})",
                      {"text": text, "path": path}))
        return False
    return True


def _work(task):
    src, tier, seed, lo, hi = task
    d = dom(src)
    ops, vs = operands(d, tier)
    fails, n, samples = [], 0, []
    rnd = random.Random(seed * 7919 + lo)
    for i in range(lo, hi):
        a = ops[i]
        n += 1
        ok = roundtrip(d, a, fails, "operand")
        if ok and len(samples) < 1 and i % 37 == 5:
            samples.append({"specifier": d.show(a), "text": d.text(a)})
        try:
            inv = d.op("~", a)
            n += 1
            roundtrip(d, inv, fails, f"~({d.show(a)})")
        except PyRaise as e:
            fails.append(("R06.2", f"{a.cls.module.name}:{a.cls.name}.__invert__", f"~({d.show(a)}) raises {d.exc_name(e)}", None))
            continue
        # pairs
        others = ops if tier == "thorough" else [ops[rnd.randrange(len(ops))] for _ in range(10)]
        for b in others:
            for opn in ("&", "|"):
                try:
                    r = d.op(opn, a, b)
                    n += 1
                    roundtrip(d, r, fails, f"({d.show(a)}) {opn} ({d.show(b)})")
                    if opn == "|" and not isinstance(r, type(None)) and rnd.random() < 0.3:
                        r2 = d.op("~", r)
                        n += 1
                        roundtrip(d, r2, fails, f"~(({d.show(a)}) | ({d.show(b)}))")
                except PyRaise as e:
                    fails.append(("R06.2", f"{a.cls.module.name}:{a.cls.name}", f"({d.show(a)}) {opn} ({d.show(b)}) raises {d.exc_name(e)}", None))
    return {"fails": fails, "n": n, "samples": samples}


def token_agreement(chk):
    """R06.3: the special renderings ('<empty>', '' for the universal set, '||' between alternatives) are read back by the
    interpreted parse_version_specifier as the same objects (decided by interpretation, so extracting helpers or moving the
    dispatch does not matter)."""
    d = dom(str(chk.src))
    it = d.it
    v1, v2, v3 = d.V("1.0"), d.V("2.0"), d.V("3.0")
    cases = [("empty", it.construct(d.Empty, [], {})), ("universal-range", d.rng()), ("any", it.construct(d.Any, [], {})),
             ("two-range-union", d.union(d.rng(hi=v1, ih=True), d.rng(lo=v2, il=False))),
             ("three-range-union", d.union(d.rng(hi=v1), d.rng(v2, v2, True, True), d.rng(lo=v3, il=True)))]
    for label, s in cases:
        chk.instance("R06.3")
        fails = []
        if roundtrip(d, s, fails, f"special token: {label}"):
            chk.ok("R06.3", key=label)
        for f in fails:
            chk.fail("R06.3", f[1], f[2], f[3])


def run(chk):
    src = str(chk.src)
    chk.explanation = (
        "Bounded ABSINT: __str__/_simplified_form and parse_version_specifier/_from_pkg_specifier are interpreted from source (packaging "
        "replaced by the PEP 440 model) on every specifier over a structured pool of version shapes and on results of the operators; the "
        "round trip must be the identity under the interpreted __eq__. Plus a token-agreement rule between renderers and the parser.")
    chk.rule("R06.1", "str() succeeds and parses back equal")
    chk.rule("R06.2", "operators do not raise on pool operands (their results are round-tripped under R06.1)")
    chk.rule("R06.3", "special renderings (<empty>, universal, ||) are read back as the same objects", min_instances=5)
    d = dom(src)
    ops, vs = operands(d, chk.tier)
    n = len(ops)
    step = max(1, (n + chk.jobs * 3 - 1) // (chk.jobs * 3))
    tasks = [(src, chk.tier, chk.seed, lo, min(n, lo + step)) for lo in range(0, n, step)]
    total = 0
    for r in parallel(_work, tasks, chk.jobs):
        total += r["n"]
        for f in r["fails"]:
            chk.fail(*f)
        for s in r["samples"]:
            chk.sample(s)
    chk.rules["R06.1"]["instances"] += total
    bad = len(chk.violations) + len(chk.known_hits)
    good = max(0, total - bad)
    chk.obligations += good
    chk.discharged += good
    chk.evaluations += good
    chk.nontrivial.update(("R06.1", i) for i in range(good))
    token_agreement(chk)
    chk.exhaustive = chk.tier == "thorough"
    chk.analysed = {"pool_versions": len(POOL), "operands": n, "round_trips": total}
    chk.extra["rule_text"] = ("every operand specifier over the version pool, its complement, and results of & / | with other operands "
                              "(all pairs in thorough, 10 seeded partners per operand in quick); every case renders through a different bound "
                              "pair, so all are counted non-trivial")
    chk.trusted += ["PEP 440 model of packaging (version parse/order/normal form, specifier grammar) — vsa/pkgmodel.py"]
    chk.assumptions += ["version shapes limited to the pool's classes; real packaging acceptance of the emitted text not decided"]
