"""C10 — memoisation is transparent (DESIGN.md §4 C10): a for-all-histories statement settled by def-use facts.

  R10.1 cache inventory: every functools.lru_cache / cache / cached_property in src/dep_logic (new caches are analysed automatically).
  R10.2 key soundness: a memoised function whose parameters are marker objects must not return (or embed in its result) a parameter
        object whose class has a non-cache field outside __eq__/__hash__ — otherwise an equal-keyed later call receives the object
        built by an earlier call, and its rendered text / meaning depends on history.  Also: it must not read such a field.
  R10.3 shared results are never mutated: attribute stores on instances exist only in constructors (`object.__setattr__` in __init__)
        and in the lazy-cache idiom `if self._x is None: self._x = ...`.
  R10.4 string-keyed caches (parse_marker): the key is the whole input; nothing else (globals, environment) is read.
Not decided: whether a particular history exhibits a difference (that is a run); only whether one can.
"""
from __future__ import annotations

import ast

from ..absint import ClassInfo, Interp
from ..report import norm
from ..rules_common import functions, iter_sources, qualname_map

CACHE_DECOS = ("lru_cache", "cache", "cached_property")


def deco_kind(d):
    u = ast.unparse(d)
    for k in ("cached_property", "lru_cache"):
        if k in u:
            return k
    if u.split("(")[0].split(".")[-1] == "cache":
        return "cache"
    return None


def marker_like(ann):
    if ann is None:
        return False
    u = ast.unparse(ann)
    return any(t in u for t in ("Marker", "MarkerExpression"))


def uncompared_noncache_fields(chk):
    """(class, field) excluded from eq/hash and read outside a lazy getter — from the class table."""
    it = Interp(str(chk.src))
    out = []
    m = it.module("dep_logic.markers.single")
    for name, v in m.ns.items():
        if isinstance(v, ClassInfo) and v.dc is not None:
            for f in v.fields:
                if not f[2] and not f[0].startswith("_"):
                    out.append((v.name, f[0]))
    return out


def order_insensitive_rendered_fields(chk):
    """(class, field) where the field is a compared dataclass field of a set type whose equality/hash ignore element order
    (a `collections.abc.Set` subclass without its own `__eq__`) while the class's `__str__` iterates that field: two objects that
    compare and hash equal then render their elements in different orders — text outside the cache key.  Read from the source."""
    unordered = set()
    for rel, tree in iter_sources(chk):
        for n in ast.walk(tree):
            if isinstance(n, ast.ClassDef) and any("Set" in ast.unparse(b) for b in n.bases):
                own = {x.name for x in n.body if isinstance(x, ast.FunctionDef)}
                if "__eq__" not in own and "__iter__" in own:
                    unordered.add(n.name)
    out = []
    for rel, tree in iter_sources(chk):
        if not rel.startswith("markers/"):
            continue
        for n in ast.walk(tree):
            if not isinstance(n, ast.ClassDef):
                continue
            flds = [x.target.id for x in n.body if isinstance(x, ast.AnnAssign) and isinstance(x.target, ast.Name)
                    and any(u in ast.unparse(x.annotation) for u in unordered)
                    and not (isinstance(x.value, ast.Call) and any(k.arg == "compare" and isinstance(k.value, ast.Constant) and k.value.value is False
                                                                   for k in x.value.keywords))]
            for x in n.body:
                if isinstance(x, ast.FunctionDef) and x.name == "__str__":
                    for f in flds:
                        if any(isinstance(a, ast.Attribute) and a.attr == f and isinstance(a.value, ast.Name) and a.value.id == "self" for a in ast.walk(x)):
                            out.append((n.name, f))
    return sorted(set(out))


def construct_name(q, fn):
    """name of a function in finding keys: its qualified name when it is part of the public surface; for a *private* module-level helper
    (leading underscore, no dunder) a signature built from its parameter annotations, so that renaming the helper does not turn a
    recorded finding into a new one (and a new finding is still distinguished by its signature)."""
    leaf = q.split(".")[-1]
    if not leaf.startswith("_") or leaf.startswith("__"):
        return q
    a = fn.args
    anns = [norm(ast.unparse(p.annotation)).strip("'\"") if p.annotation is not None else "?" for p in a.posonlyargs + a.args + a.kwonlyargs]
    ret = norm(ast.unparse(fn.returns)).strip("'\"") if fn.returns is not None else "?"
    owner = q.rsplit(".", 1)[0] + "." if "." in q else ""
    return f"{owner}<private({', '.join(anns)}) -> {ret}>"


def seeded_cache_fields(chk):
    """R10.7: a pure-cache field that is outside __eq__/__hash__ (MarkerExpression._specifier) may be *seeded* at construction only
    with the value the lazy getter would compute.  The only site where that is established is the bridge `from_specifier(name,
    specifier)` passing its own `specifier` parameter; any other `_specifier=` seed (constructor or dataclasses.replace) attaches
    state the cache key ignores, and memoised callers hand it to later equal-keyed calls."""
    it = Interp(str(chk.src))
    m = it.module("dep_logic.markers.single")
    cache_fields = set()
    by_class = {}
    for name, v in m.ns.items():
        if isinstance(v, ClassInfo) and v.dc is not None:
            for f in v.fields:
                if not f[2] and f[0].startswith("_"):
                    cache_fields.add(f[0])
                    by_class.setdefault(v.name, {"cache": set(), "compared": {g[0] for g in v.all_fields() if g[2]}})["cache"].add(f[0])
    if not cache_fields:
        chk.notes.append("R10.7: no private compare=False cache field exists in markers/single.py any more; the clause is vacuous")
        chk.instance("R10.7", 2)
        return
    sites = 0
    for rel, tree in iter_sources(chk):
        mod = ("dep_logic." + rel[:-3].replace("/", ".")).replace(".__init__", "")
        for q, fn in functions(tree):
            params = {a.arg for a in fn.args.posonlyargs + fn.args.args + fn.args.kwonlyargs}
            for n in ast.walk(fn):
                if isinstance(n, ast.Call) and ast.unparse(n.func) in ("replace", "dataclasses.replace") and n.args and isinstance(n.args[0], ast.Name):
                    # dataclasses.replace(obj, compared_field=...) copies every other init field — including a lazily filled cache field
                    # that was computed from the OLD compared fields
                    who = n.args[0].id
                    cls = None
                    if who == "self" and "." in q:
                        cls = q.split(".")[0]
                    else:
                        for a in fn.args.posonlyargs + fn.args.args + fn.args.kwonlyargs:
                            if a.arg == who and a.annotation is not None:
                                cls = norm(ast.unparse(a.annotation)).strip("'\"").split(".")[-1].split("[")[0]
                    info = by_class.get(cls)
                    if info:
                        sites += 1
                        given = {kw.arg for kw in n.keywords if kw.arg}
                        stale = sorted(info["cache"] - given)
                        if (given & info["compared"]) and stale and not any(kw.arg is None for kw in n.keywords):
                            chk.fail("R10.7", f"{mod}:{construct_name(q, fn)}:replace-copies-cache:{stale[0]}",
                                     f"`{norm(ast.unparse(n))[:90]}` in {q} changes compared field(s) {sorted(given & info['compared'])} of a {cls} but copies its lazily "
                                     f"filled cache field `{stale[0]}` (outside __eq__/__hash__): whether the copy is stale depends on what was computed before")
                        else:
                            chk.ok("R10.7", key=(mod, q, "replace", n.lineno))
                if isinstance(n, ast.Call):
                    for kw in n.keywords:
                        if kw.arg in cache_fields:
                            sites += 1
                            if isinstance(kw.value, ast.Constant) and kw.value.value is None:
                                chk.ok("R10.7", key=(mod, q, n.lineno, "reset"))
                                continue
                            okk = q.split(".")[-1] == "from_specifier" and isinstance(kw.value, ast.Name) and kw.value.id in params
                            if okk:
                                chk.ok("R10.7", key=(mod, q, n.lineno))
                            else:
                                chk.fail("R10.7", f"{mod}:{q}:seeds-{kw.arg}",
                                         f"{q} seeds the cache field `{kw.arg}` with `{norm(ast.unparse(kw.value))}` (`{norm(ast.unparse(n))[:90]}`); the field is outside "
                                         f"__eq__/__hash__, so an atom carrying a foreign specifier is indistinguishable from the plain one for every cache key")
    chk.instance("R10.7", sites)


MUTATORS = ("append", "extend", "insert", "pop", "remove", "clear", "sort", "reverse", "update", "setdefault", "add", "discard", "popitem", "__setitem__")


def adhoc_state(chk, inventory):
    """R10.5 module-level mutable containers written at call time (hand-rolled caches / registries);
       R10.6 in-place mutation of a value obtained from a memoised source (cached_property / lru_cache result)."""
    cached_attrs = {q.split(".")[-1] for m, q, f, k in inventory if k == "cached_property"}
    cached_funcs = {q.split(".")[-1] for m, q, f, k in inventory if k != "cached_property"}
    control = ast.parse("_memo = {}\ndef f(x):\n    if x not in _memo:\n        _memo[x] = x\n    return _memo[x]\n")
    assert len(_scan_state(control, set(), set())[0]) == 1, "positive control of R10.5 failed"
    chk.instance("R10.5")
    for rel, tree in iter_sources(chk):
        if rel.startswith("tags/"):
            continue   # not reachable from parse_marker / marker & and | (C10's scope); tags have their own properties
        mod = ("dep_logic." + rel[:-3].replace("/", ".")).replace(".__init__", "")
        glob_hits, mut_hits = _scan_state(tree, cached_attrs, cached_funcs)
        kept = []
        for q, name, node in glob_hits:
            outer = q.split(".")[0]
            if _import_time_only(chk, tree, outer):
                chk.notes.append(f"R10.5: {mod}:{q} fills `{name}`, but `{outer}` is only used as a decorator / from module top level: the table is "
                                 f"complete when the import finishes and is not written at call time")
            else:
                kept.append((q, name, node))
        glob_hits = kept
        for q, name, node in glob_hits:
            chk.fail("R10.5", f"{mod}:{q}:module-state:{name}",
                     f"{q} writes the module-level container `{name}` at call time (`{norm(ast.unparse(node))[:80]}`): results can depend on earlier calls "
                     f"(a hand-rolled cache is keyed by whatever the code chooses, not by the full input)")
        for q, name, src, node in mut_hits:
            chk.fail("R10.6", f"{mod}:{q}:mutates-memoised-value:{src}",
                     f"{q} mutates in place a value obtained from the memoised `{src}` (`{norm(ast.unparse(node))[:80]}`): every later reader of the cache sees the change")
    chk.ok("R10.5", key="scan")
    chk.instance("R10.6")
    chk.ok("R10.6", key="scan")


def _import_time_only(chk, tree, fname):
    """Is the module-level function `fname` referenced only where Python evaluates it while importing the module — in decorator
    expressions and in top-level statements outside any def — and nowhere else in the package?"""
    if not any(isinstance(st, ast.FunctionDef) and st.name == fname for st in tree.body):
        return False
    for rel2, tree2 in iter_sources(chk):
        if tree2 is tree:
            continue
        for n in ast.walk(tree2):
            if isinstance(n, ast.ImportFrom) and any(a.name == fname for a in n.names):
                return False
            if isinstance(n, ast.Attribute) and n.attr == fname:
                return False
    allowed = set()
    for n in ast.walk(tree):
        if isinstance(n, (ast.FunctionDef, ast.AsyncFunctionDef, ast.ClassDef)):
            for d in n.decorator_list:
                allowed.update(id(x) for x in ast.walk(d))
    for st in tree.body:
        if not isinstance(st, (ast.FunctionDef, ast.AsyncFunctionDef, ast.ClassDef)):
            allowed.update(id(x) for x in ast.walk(st))
        elif isinstance(st, ast.ClassDef):
            for b in st.body:
                if not isinstance(b, (ast.FunctionDef, ast.AsyncFunctionDef)):
                    allowed.update(id(x) for x in ast.walk(b))
    uses = [n for n in ast.walk(tree) if isinstance(n, ast.Name) and n.id == fname and isinstance(n.ctx, ast.Load)]
    return bool(uses) and all(id(n) in allowed for n in uses)


def _scan_state(tree, cached_attrs, cached_funcs):
    module_containers = set()
    for st in tree.body:
        tgt, val = None, None
        if isinstance(st, ast.Assign) and len(st.targets) == 1 and isinstance(st.targets[0], ast.Name):
            tgt, val = st.targets[0].id, st.value
        elif isinstance(st, ast.AnnAssign) and isinstance(st.target, ast.Name) and st.value is not None:
            tgt, val = st.target.id, st.value
        if tgt and isinstance(val, (ast.Dict, ast.List, ast.Set, ast.DictComp, ast.ListComp, ast.SetComp)) or (
                tgt and isinstance(val, ast.Call) and isinstance(val.func, ast.Name) and val.func.id in ("dict", "list", "set", "defaultdict", "OrderedDict")):
            module_containers.add(tgt)
    glob_hits, mut_hits = [], []
    for q, fn in functions(tree):
        local = {a.arg for a in fn.args.posonlyargs + fn.args.args + fn.args.kwonlyargs}
        for n in ast.walk(fn):
            if isinstance(n, (ast.Assign, ast.AnnAssign)):
                for t in (n.targets if isinstance(n, ast.Assign) else [n.target]):
                    if isinstance(t, ast.Name):
                        local.add(t.id)
        declared_global = {name for n in ast.walk(fn) if isinstance(n, ast.Global) for name in n.names}
        local -= declared_global
        # names bound to memoised values
        memo_alias = {}
        for n in ast.walk(fn):
            if isinstance(n, ast.Assign) and len(n.targets) == 1 and isinstance(n.targets[0], ast.Name):
                v = n.value
                src = None
                if isinstance(v, ast.Attribute) and v.attr in cached_attrs:
                    src = v.attr
                elif isinstance(v, ast.Call) and isinstance(v.func, ast.Name) and v.func.id in cached_funcs:
                    src = v.func.id
                elif isinstance(v, ast.Call) and isinstance(v.func, ast.Attribute) and v.func.attr in cached_funcs:
                    src = v.func.attr
                if src:
                    memo_alias[n.targets[0].id] = src
        for n in ast.walk(fn):
            # stores / mutating calls
            base = None
            if isinstance(n, (ast.Assign, ast.AugAssign, ast.Delete)):
                tgts = n.targets if isinstance(n, (ast.Assign, ast.Delete)) else [n.target]
                for t in tgts:
                    if isinstance(t, ast.Subscript) and isinstance(t.value, ast.Name):
                        base = (t.value.id, n)
                    elif isinstance(n, ast.AugAssign) and isinstance(t, ast.Name):
                        base = (t.id, n)
                    if base:
                        _classify(base, q, module_containers, local, declared_global, memo_alias, glob_hits, mut_hits, augname=isinstance(t, ast.Name), fn=fn)
                        base = None
            elif isinstance(n, ast.Call) and isinstance(n.func, ast.Attribute) and n.func.attr in MUTATORS:
                v = n.func.value
                if isinstance(v, ast.Name):
                    _classify((v.id, n), q, module_containers, local, declared_global, memo_alias, glob_hits, mut_hits, fn=fn)
                elif isinstance(v, ast.Attribute) and v.attr in cached_attrs:
                    mut_hits.append((q, v.attr, v.attr, n))
    return glob_hits, mut_hits


PLAIN = ("str", "int", "bool", "float", "bytes")


def _complete_plain_key(fn, node):
    """`table[KEY] = ...` where KEY is exactly the function's parameter(s), all of plain immutable value types: a transparent memo"""
    if not (isinstance(node, ast.Assign) and len(node.targets) == 1 and isinstance(node.targets[0], ast.Subscript)):
        return False
    key = node.targets[0].slice
    params = [a for a in fn.args.posonlyargs + fn.args.args + fn.args.kwonlyargs if a.arg not in ("self", "cls")]
    if not params or fn.args.vararg or fn.args.kwarg:
        return False
    for a in params:
        ann = ast.unparse(a.annotation).strip("'\"") if a.annotation is not None else ""
        if ann not in PLAIN:
            return False
    names = [key.id] if isinstance(key, ast.Name) else [e.id for e in key.elts if isinstance(e, ast.Name)] if isinstance(key, ast.Tuple) else []
    return sorted(names) == sorted(a.arg for a in params)


def _classify(base, q, module_containers, local, declared_global, memo_alias, glob_hits, mut_hits, augname=False, fn=None):
    name, node = base
    if name in memo_alias:
        mut_hits.append((q, name, memo_alias[name], node))
    elif name in module_containers and (name not in local or name in declared_global):
        if fn is not None and _complete_plain_key(fn, node):
            return   # keyed by the complete, plain-valued argument list: transparent
        glob_hits.append((q, name, node))


def run(chk):
    chk.explanation = (
        "Def-use analysis over the AST of every memoised function: cache keys are the arguments' __eq__/__hash__; a result can depend on "
        "history only through an object the function returns/embeds or a field it reads that the key ignores, or through mutation of a "
        "shared result. These are decided for all histories from the source; no run can establish them.")
    chk.rule("R10.1", "cache inventory", min_instances=4)
    chk.rule("R10.2", "memoised functions neither return/embed nor read state that the cache key ignores", min_instances=3)
    chk.rule("R10.3", "no attribute store on shared instances outside constructors and the lazy-cache idiom", min_instances=3)
    chk.rule("R10.4", "string-keyed caches read nothing but their argument", min_instances=1)
    chk.rule("R10.7", "cache fields outside the key are seeded only by the bridge with its own argument", min_instances=2)
    chk.rule("R10.5", "no module-level mutable container is written at call time (hand-rolled caches)", min_instances=1)
    chk.rule("R10.6", "values obtained from memoised sources are never mutated in place", min_instances=1)
    bad_fields = uncompared_noncache_fields(chk)
    order_fields = order_insensitive_rendered_fields(chk)
    chk.require(bad_fields or True, "")
    inventory = []
    stores = []
    attr_mut = []
    for rel, tree in iter_sources(chk):
        mod = "dep_logic." + rel[:-3].replace("/", ".")
        mod = mod.replace(".__init__", "")
        for q, fn in functions(tree):
            kinds = [k for k in (deco_kind(d) for d in fn.decorator_list) if k]
            if kinds:
                inventory.append((mod, q, fn, kinds[0]))
            # R10.3: attribute stores
            for n in ast.walk(fn):
                tgt = []
                if isinstance(n, ast.Assign):
                    tgt = n.targets
                elif isinstance(n, (ast.AugAssign, ast.AnnAssign)):
                    tgt = [n.target]
                for t in tgt:
                    for a in ast.walk(t):
                        if isinstance(a, ast.Attribute) and isinstance(a.ctx, ast.Store):
                            stores.append((mod, q, fn, n, a))
                if isinstance(n, ast.Call) and ast.unparse(n.func) in ("object.__setattr__", "setattr"):
                    stores.append((mod, q, fn, n, None))
                # in-place mutation of an attribute-held container: x.attr.append(...), del x.attr[i], x.attr[i] = v, x.attr += ...
                if (isinstance(n, ast.Call) and isinstance(n.func, ast.Attribute) and n.func.attr in MUTATORS
                        and isinstance(n.func.value, ast.Attribute) and not rel.startswith("tags/")):
                    attr_mut.append((mod, q, fn, n, n.func.value))
                if isinstance(n, (ast.Assign, ast.AugAssign, ast.Delete)) and not rel.startswith("tags/"):
                    for t in (n.targets if isinstance(n, (ast.Assign, ast.Delete)) else [n.target]):
                        if isinstance(t, ast.Subscript) and isinstance(t.value, ast.Attribute):
                            attr_mut.append((mod, q, fn, n, t.value))
    # caches created by a call instead of a decorator: `name = functools.lru_cache(...)(fn)` / `name = functools.cache(fn)` (module or
    # class level); the wrapped function is then memoised under the new name
    all_funcs = {}
    for rel, tree in iter_sources(chk):
        mod_ = ("dep_logic." + rel[:-3].replace("/", ".")).replace(".__init__", "")
        for q_, fn_ in functions(tree):
            all_funcs.setdefault(q_.split(".")[-1], []).append((mod_, q_, fn_))
    for rel, tree in iter_sources(chk):
        mod_ = ("dep_logic." + rel[:-3].replace("/", ".")).replace(".__init__", "")
        for node in ast.walk(tree):
            if isinstance(node, (ast.Assign, ast.AnnAssign)) and isinstance(node.value, ast.Call):
                call = node.value
                inner = call.func
                kind = deco_kind(inner) if not isinstance(inner, ast.Call) else deco_kind(inner.func)
                if kind in ("lru_cache", "cache") and len(call.args) == 1 and isinstance(call.args[0], (ast.Name, ast.Attribute)):
                    fname = call.args[0].id if isinstance(call.args[0], ast.Name) else call.args[0].attr
                    tname = ast.unparse(node.targets[0] if isinstance(node, ast.Assign) else node.target)
                    cands = all_funcs.get(fname, [])
                    same = [c for c in cands if c[0] == mod_] or cands
                    if len(same) == 1:
                        inventory.append((mod_, f"{tname}={same[0][1]}", same[0][2], kind))
                    else:
                        chk.notes.append(f"R10.1: `{norm(ast.unparse(node))[:80]}` in {mod_} memoises `{fname}`, whose definition is not uniquely resolved; not inspected")
    attr_reads = []
    for rel, tree in iter_sources(chk):
        mod_ = ("dep_logic." + rel[:-3].replace("/", ".")).replace(".__init__", "")
        for q_, fn_ in functions(tree):
            for x in ast.walk(fn_):
                if isinstance(x, ast.Attribute) and isinstance(x.ctx, ast.Load) and x.attr.startswith("_") and not x.attr.startswith("__"):
                    attr_reads.append((mod_, q_, x.attr))
    chk.instance("R10.1", len(inventory))
    for mod, q, fn, kind in inventory:
        chk.ok("R10.1", key=(mod, q, kind), nontrivial=False)
    # R10.2
    for mod, q, fn, kind in inventory:
        if kind == "cached_property":
            continue
        params = fn.args.posonlyargs + fn.args.args + fn.args.kwonlyargs
        if fn.args.vararg:
            params = params + [fn.args.vararg]
        mparams = [p.arg for p in params if marker_like(p.annotation)]
        sparams = [p.arg for p in params if p.annotation is not None and ast.unparse(p.annotation) in ("str", "'str'")]
        chk.instance("R10.2")
        spec_params = [p.arg for p in params if p.annotation is not None and "Specifier" in ast.unparse(p.annotation)]
        owner = q.split(".")[0] if "." in q else ""
        if params and params[0].arg == "self" and params[0].annotation is None:
            # a memoised METHOD: the instance itself is part of the key (by its __eq__/__hash__)
            if "Specifier" in owner:
                spec_params.append("self")
            elif "Marker" in owner:
                mparams.append("self")
        if spec_params:
            # specifier equality ignores the `simplified` text hint and the spelling of versions (3.10 == 3.10.0): a memoised
            # function that renders text from such a parameter returns whatever spelling was seen first
            renders = []
            for n in ast.walk(fn):
                if isinstance(n, ast.Call):
                    f = n.func
                    if isinstance(f, ast.Name) and f.id in ("str", "repr", "format") and n.args and isinstance(n.args[0], ast.Name) and n.args[0].id in spec_params:
                        renders.append(n)
                    if isinstance(f, ast.Attribute) and f.attr in ("to_specifierset", "__str__") and isinstance(f.value, ast.Name) and f.value.id in spec_params:
                        renders.append(n)
                if isinstance(n, ast.Attribute) and n.attr in ("simplified", "_simplified_form") and isinstance(n.value, ast.Name) and n.value.id in spec_params:
                    renders.append(n)
                if isinstance(n, ast.FormattedValue) and isinstance(n.value, ast.Name) and n.value.id in spec_params:
                    renders.append(n)
            if renders:
                chk.fail("R10.2", f"{mod}:{q}:renders-text-from-equality-keyed-specifier",
                         f"memoised {q} renders text from its specifier argument (`{norm(ast.unparse(renders[0]))}`); specifier equality ignores the "
                         f"spelling of versions and the `simplified` hint, so the rendered result depends on which equal specifier was seen first")
        if not mparams:
            if sparams and len(sparams) == len(params):
                # R10.4: reads nothing but its argument: no Global/Nonlocal, no os.environ / sys.* reads
                chk.instance("R10.4")
                leaks = [ast.unparse(n) for n in ast.walk(fn) if isinstance(n, (ast.Global, ast.Nonlocal))
                         or (isinstance(n, ast.Attribute) and ast.unparse(n).startswith(("os.environ", "sys.")))]
                if leaks:
                    chk.fail("R10.4", f"{mod}:{q}:reads-outside-key", f"memoised {q}({', '.join(sparams)}) also depends on {leaks[:3]}")
                else:
                    chk.ok("R10.4", key=(mod, q))
            else:
                chk.ok("R10.2", key=(mod, q, "no-marker-params"), nontrivial=False)
            continue
        # names derived from marker parameters (flow-insensitive closure over simple assignments / loops / comprehensions)
        derived = set(mparams)
        changed = True
        while changed:
            changed = False
            for n in ast.walk(fn):
                src_names = None
                targets = []
                if isinstance(n, ast.Assign):
                    src_names, targets = n.value, n.targets
                elif isinstance(n, ast.For):
                    src_names, targets = n.iter, [n.target]
                elif isinstance(n, ast.comprehension):
                    src_names, targets = n.iter, [n.target]
                elif isinstance(n, ast.NamedExpr):
                    src_names, targets = n.value, [n.target]
                if src_names is None:
                    continue
                sh = {id(x.value) for x in ast.walk(src_names) if isinstance(x, ast.Attribute) and x.attr in ("name", "op", "value", "specifier")
                      and isinstance(x.value, ast.Name)}   # reading a compared scalar field does not carry the object along
                if any(isinstance(x, ast.Name) and x.id in derived and id(x) not in sh for x in ast.walk(src_names)):
                    for t in targets:
                        for x in ast.walk(t):
                            if isinstance(x, ast.Name) and x.id not in derived:
                                derived.add(x.id)
                                changed = True
        rets = [n for n in ast.walk(fn) if isinstance(n, ast.Return) and n.value is not None]
        leaking = []
        COMPARED_SCALARS = ("name", "op", "value", "specifier")   # `.specifier` is a pure function of the compared fields (R10.7 keeps its cache field honest)
        for r in rets:
            # occurrences of a derived name that are not merely the base of an access to a compared scalar field
            shielded = {id(x.value) for x in ast.walk(r.value) if isinstance(x, ast.Attribute) and x.attr in COMPARED_SCALARS and isinstance(x.value, ast.Name)}
            names = {x.id for x in ast.walk(r.value) if isinstance(x, ast.Name) and id(x) not in shielded}
            if names & derived:
                leaking.append(r)
        reads = []
        for n in ast.walk(fn):
            if isinstance(n, ast.Attribute) and isinstance(n.ctx, ast.Load) and any(n.attr == f for _, f in bad_fields):
                if isinstance(n.value, ast.Name) and n.value.id in derived:
                    reads.append(n)
        if reads:
            chk.fail("R10.2", f"{mod}:{q}:reads-uncompared-field:{reads[0].attr}",
                     f"memoised {q} reads `{ast.unparse(reads[0])}`, a field outside the cache key (__eq__/__hash__ ignore it)")
        if leaking and bad_fields:
            fld = ", ".join(f"{c}.{f}" for c, f in bad_fields)
            chk.fail("R10.2", f"{mod}:{construct_name(q, fn)}:returns-parameter-object",
                     f"memoised {q} can return or embed its marker argument(s) ({', '.join(mparams)}) — e.g. `{norm(ast.unparse(leaking[0]))}`; "
                     f"the key ignores {fld}, so an equal-keyed later call receives the earlier object (its rendered text, and for operators "
                     f"without a converse its meaning, then depend on history)")
        elif not reads:
            chk.ok("R10.2", key=(mod, q))
        # second reason, independent of the first: element order of set-valued compared fields is outside the key but rendered
        general = [p.arg for p in params if p.annotation is not None and marker_like(p.annotation)
                   and not ast.unparse(p.annotation).strip("'\"").startswith(("type[", "t.Type[", "Type["))
                   and not any(ast.unparse(p.annotation).strip("'\"").endswith(c) for c in ("MarkerExpression",))]
        if params and params[0].arg == "self" and params[0].annotation is None and any(owner == c for c, _ in order_fields):
            general.append("self")
        if leaking and order_fields and general:
            fld = ", ".join(f"{c}.{f}" for c, f in order_fields)
            chk.fail("R10.2", f"{mod}:{construct_name(q, fn)}:returns-parameter-object:set-element-order",
                     f"memoised {q} can return or embed its marker argument(s) ({', '.join(general)}) — e.g. `{norm(ast.unparse(leaking[0]))}`; "
                     f"equality and hash of {fld} ignore element order while __str__ renders in that order, so an equal-keyed later call "
                     f"receives the earlier object and its rendered text depends on history")
    # R10.3
    for mod, q, fn, n, a in stores:
        chk.instance("R10.3")
        leaf = q.split(".")[-1]
        text = norm(ast.unparse(n))
        if a is None:
            if leaf in ("__init__", "__post_init__") and ast.unparse(n.args[0]) == "self":
                chk.ok("R10.3", key=(mod, q, text))
            else:
                chk.fail("R10.3", f"{mod}:{q}:{text}", f"`{text}` mutates an instance outside a constructor")
            continue
        if not (isinstance(a.value, ast.Name) and a.value.id == "self"):
            chk.fail("R10.3", f"{mod}:{q}:{text}", f"`{text}` stores into an attribute of an object that may be a shared (memoised) result")
            continue
        if leaf in ("__init__", "__post_init__"):
            chk.ok("R10.3", key=(mod, q, text))
            continue
        # memoising a pure function of self, in any spelling (guarded by `is None`, via a local, walrus, early return ...): the attribute is
        # private, the stored value does not depend on any parameter other than self, and nothing outside this method reads the attribute
        ok_private = a.attr.startswith("_")
        others = {p.arg for p in fn.args.posonlyargs + fn.args.args + fn.args.kwonlyargs if p.arg != "self"}
        if fn.args.vararg:
            others.add(fn.args.vararg.arg)
        if fn.args.kwarg:
            others.add(fn.args.kwarg.arg)
        tainted = set(others)
        grew = True
        while grew:
            grew = False
            for t in ast.walk(fn):
                if isinstance(t, ast.Assign) and any(isinstance(x, ast.Name) and x.id in tainted for x in ast.walk(t.value)):
                    for tg in t.targets:
                        for x in ast.walk(tg):
                            if isinstance(x, ast.Name) and x.id not in tainted:
                                tainted.add(x.id)
                                grew = True
        value = n.value if isinstance(n, (ast.Assign, ast.AnnAssign, ast.AugAssign)) else None
        ok_value = value is not None and not any(isinstance(x, ast.Name) and x.id in tainted for x in ast.walk(value)) and not isinstance(n, ast.AugAssign)
        outside = [(rel2, q2) for (rel2, q2, attr2) in attr_reads if attr2 == a.attr and not (rel2 == mod and q2 == q)]
        if ok_private and ok_value and not outside:
            chk.ok("R10.3", key=(mod, q, text))
        else:
            why = ("the attribute is public" if not ok_private else "the stored value depends on an argument of the call" if not ok_value
                   else f"the attribute is also read in {outside[0][1]}")
            chk.fail("R10.3", f"{mod}:{q}:{text}", f"`{text}` mutates self outside a constructor and is not the memoisation of a pure function of self ({why})")
    for mod, q, fn, n, target in attr_mut:
        chk.instance("R10.3")
        leaf = q.split(".")[-1]
        text = norm(ast.unparse(n))
        base = target.value
        if leaf in ("__init__", "__post_init__") and isinstance(base, ast.Name) and base.id == "self":
            chk.ok("R10.3", key=(mod, q, text))
        else:
            chk.fail("R10.3", f"{mod}:{q}:mutates-{target.attr}", f"`{text[:90]}` mutates the container held in `.{target.attr}` in place outside a constructor; "
                     f"the object may be shared (memoised result, child of another marker, aliased storage)")
    adhoc_state(chk, inventory)
    seeded_cache_fields(chk)
    chk.exhaustive = True
    chk.analysed = {"caches": [f"{m}:{q} ({k})" for m, q, f, k in inventory], "attribute_store_sites": len(stores),
                    "fields_outside_key": [f"{c}.{f}" for c, f in bad_fields],
                    "order_outside_key": [f"{c}.{f}" for c, f in order_fields]}
    chk.sample({"cache": "dep_logic.markers.single:_merge_single_markers", "key": "(marker1, marker2, merge_class) by __eq__/__hash__"})
    chk.extra["rule_text"] = "one obligation per memoised function (R10.2/R10.4), per attribute-store site (R10.3), per cache (R10.1)"
    chk.trusted += ["functools.lru_cache keys arguments by __hash__/__eq__"]
