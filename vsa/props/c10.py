"""C10 — memoisation is transparent (DESIGN.md §4 C10): a for-all-histories statement settled by def-use facts.

  R10.1 cache inventory: every functools.lru_cache / cache / cached_property in src/dep_logic (new caches are analysed automatically).
  R10.2 key soundness: a memoised function whose parameters are marker objects must not return (or embed in its result) a parameter
        object whose class has a non-cache field outside __eq__/__hash__ — otherwise an equal-keyed later call receives the object
        built by an earlier call, and its rendered text / meaning depends on history.  Also: it must not read such a field.
  R10.3 shared results are never mutated: attribute stores on instances exist only in constructors (`object.__setattr__` in __init__)
        and in the lazy-cache idiom `if self._x is None: self._x = ...`.
  R10.4 string-keyed caches (parse_marker): the key is the whole input; nothing else (globals, environment) is read.
Not decided: whether a particular history exhibits a difference (that is a run); only whether one can.
"""
from __future__ import annotations

import ast

from ..absint import ClassInfo, Interp
from ..report import norm
from ..rules_common import functions, iter_sources, qualname_map

CACHE_DECOS = ("lru_cache", "cache", "cached_property")


def deco_kind(d):
    u = ast.unparse(d)
    for k in ("cached_property", "lru_cache"):
        if k in u:
            return k
    if u.split("(")[0].split(".")[-1] == "cache":
        return "cache"
    return None


def marker_like(ann):
    if ann is None:
        return False
    u = ast.unparse(ann)
    return any(t in u for t in ("Marker", "MarkerExpression"))


def uncompared_noncache_fields(chk):
    """(class, field) excluded from eq/hash and read outside a lazy getter — from the class table."""
    it = Interp(str(chk.src))
    out = []
    m = it.module("dep_logic.markers.single")
    for name, v in m.ns.items():
        if isinstance(v, ClassInfo) and v.dc is not None:
            for f in v.fields:
                if not f[2] and not f[0].startswith("_"):
                    out.append((v.name, f[0]))
    return out


def run(chk):
    chk.explanation = (
        "Def-use analysis over the AST of every memoised function: cache keys are the arguments' __eq__/__hash__; a result can depend on "
        "history only through an object the function returns/embeds or a field it reads that the key ignores, or through mutation of a "
        "shared result. These are decided for all histories from the source; no run can establish them.")
    chk.rule("R10.1", "cache inventory", min_instances=4)
    chk.rule("R10.2", "memoised functions neither return/embed nor read state that the cache key ignores", min_instances=3)
    chk.rule("R10.3", "no attribute store on shared instances outside constructors and the lazy-cache idiom", min_instances=3)
    chk.rule("R10.4", "string-keyed caches read nothing but their argument", min_instances=1)
    bad_fields = uncompared_noncache_fields(chk)
    chk.require(bad_fields or True, "")
    inventory = []
    stores = []
    for rel, tree in iter_sources(chk):
        mod = "dep_logic." + rel[:-3].replace("/", ".")
        mod = mod.replace(".__init__", "")
        for q, fn in functions(tree):
            kinds = [k for k in (deco_kind(d) for d in fn.decorator_list) if k]
            if kinds:
                inventory.append((mod, q, fn, kinds[0]))
            # R10.3: attribute stores
            for n in ast.walk(fn):
                tgt = []
                if isinstance(n, ast.Assign):
                    tgt = n.targets
                elif isinstance(n, (ast.AugAssign, ast.AnnAssign)):
                    tgt = [n.target]
                for t in tgt:
                    for a in ast.walk(t):
                        if isinstance(a, ast.Attribute) and isinstance(a.ctx, ast.Store):
                            stores.append((mod, q, fn, n, a))
                if isinstance(n, ast.Call) and ast.unparse(n.func) in ("object.__setattr__", "setattr"):
                    stores.append((mod, q, fn, n, None))
    chk.instance("R10.1", len(inventory))
    for mod, q, fn, kind in inventory:
        chk.ok("R10.1", key=(mod, q, kind), nontrivial=False)
    # R10.2
    for mod, q, fn, kind in inventory:
        if kind == "cached_property":
            continue
        params = fn.args.posonlyargs + fn.args.args + fn.args.kwonlyargs
        if fn.args.vararg:
            params = params + [fn.args.vararg]
        mparams = [p.arg for p in params if marker_like(p.annotation)]
        sparams = [p.arg for p in params if p.annotation is not None and ast.unparse(p.annotation) in ("str", "'str'")]
        chk.instance("R10.2")
        if not mparams:
            if sparams and len(sparams) == len(params):
                # R10.4: reads nothing but its argument: no Global/Nonlocal, no os.environ / sys.* reads
                chk.instance("R10.4")
                leaks = [ast.unparse(n) for n in ast.walk(fn) if isinstance(n, (ast.Global, ast.Nonlocal))
                         or (isinstance(n, ast.Attribute) and ast.unparse(n).startswith(("os.environ", "sys.")))]
                if leaks:
                    chk.fail("R10.4", f"{mod}:{q}:reads-outside-key", f"memoised {q}({', '.join(sparams)}) also depends on {leaks[:3]}")
                else:
                    chk.ok("R10.4", key=(mod, q))
            else:
                chk.ok("R10.2", key=(mod, q, "no-marker-params"), nontrivial=False)
            continue
        # names derived from marker parameters (flow-insensitive closure over simple assignments / loops / comprehensions)
        derived = set(mparams)
        changed = True
        while changed:
            changed = False
            for n in ast.walk(fn):
                src_names = None
                targets = []
                if isinstance(n, ast.Assign):
                    src_names, targets = n.value, n.targets
                elif isinstance(n, ast.For):
                    src_names, targets = n.iter, [n.target]
                elif isinstance(n, ast.comprehension):
                    src_names, targets = n.iter, [n.target]
                elif isinstance(n, ast.NamedExpr):
                    src_names, targets = n.value, [n.target]
                if src_names is None:
                    continue
                if any(isinstance(x, ast.Name) and x.id in derived for x in ast.walk(src_names)):
                    for t in targets:
                        for x in ast.walk(t):
                            if isinstance(x, ast.Name) and x.id not in derived:
                                derived.add(x.id)
                                changed = True
        rets = [n for n in ast.walk(fn) if isinstance(n, ast.Return) and n.value is not None]
        leaking = []
        for r in rets:
            names = {x.id for x in ast.walk(r.value) if isinstance(x, ast.Name)}
            if names & derived:
                leaking.append(r)
        reads = []
        for n in ast.walk(fn):
            if isinstance(n, ast.Attribute) and isinstance(n.ctx, ast.Load) and any(n.attr == f for _, f in bad_fields):
                if isinstance(n.value, ast.Name) and n.value.id in derived:
                    reads.append(n)
        if reads:
            chk.fail("R10.2", f"{mod}:{q}:reads-uncompared-field:{reads[0].attr}",
                     f"memoised {q} reads `{ast.unparse(reads[0])}`, a field outside the cache key (__eq__/__hash__ ignore it)")
        if leaking and bad_fields:
            fld = ", ".join(f"{c}.{f}" for c, f in bad_fields)
            chk.fail("R10.2", f"{mod}:{q}:returns-parameter-object",
                     f"memoised {q} can return or embed its marker argument(s) ({', '.join(mparams)}) — e.g. `{norm(ast.unparse(leaking[0]))}`; "
                     f"the key ignores {fld}, so an equal-keyed later call receives the earlier object (its rendered text, and for operators "
                     f"without a converse its meaning, then depend on history)")
        elif not reads:
            chk.ok("R10.2", key=(mod, q))
    # R10.3
    for mod, q, fn, n, a in stores:
        chk.instance("R10.3")
        leaf = q.split(".")[-1]
        text = norm(ast.unparse(n))
        if a is None:
            if leaf in ("__init__", "__post_init__") and ast.unparse(n.args[0]) == "self":
                chk.ok("R10.3", key=(mod, q, text))
            else:
                chk.fail("R10.3", f"{mod}:{q}:{text}", f"`{text}` mutates an instance outside a constructor")
            continue
        if not (isinstance(a.value, ast.Name) and a.value.id == "self"):
            chk.fail("R10.3", f"{mod}:{q}:{text}", f"`{text}` stores into an attribute of an object that may be a shared (memoised) result")
            continue
        if leaf in ("__init__", "__post_init__"):
            chk.ok("R10.3", key=(mod, q, text))
            continue
        # lazy-cache idiom: guarded by `if self.<attr> is None:`
        okk = False
        for st in ast.walk(fn):
            if isinstance(st, ast.If) and n in list(ast.walk(st)):
                t = st.test
                if (isinstance(t, ast.Compare) and len(t.ops) == 1 and isinstance(t.ops[0], ast.Is) and ast.unparse(t.left) == f"self.{a.attr}"
                        and isinstance(t.comparators[0], ast.Constant) and t.comparators[0].value is None):
                    okk = True
        if okk and a.attr.startswith("_"):
            chk.ok("R10.3", key=(mod, q, text))
        else:
            chk.fail("R10.3", f"{mod}:{q}:{text}", f"`{text}` mutates self outside a constructor and outside the lazy-cache idiom `if self._x is None: self._x = ...`")
    chk.exhaustive = True
    chk.analysed = {"caches": [f"{m}:{q} ({k})" for m, q, f, k in inventory], "attribute_store_sites": len(stores),
                    "fields_outside_key": [f"{c}.{f}" for c, f in bad_fields]}
    chk.sample({"cache": "dep_logic.markers.single:_merge_single_markers", "key": "(marker1, marker2, merge_class) by __eq__/__hash__"})
    chk.extra["rule_text"] = "one obligation per memoised function (R10.2/R10.4), per attribute-store site (R10.3), per cache (R10.1)"
    chk.trusted += ["functools.lru_cache keys arguments by __hash__/__eq__"]
