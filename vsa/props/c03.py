"""C03 — marker evaluation agrees with the PEP 508 reference semantics (DESIGN.md §4 C03).

  R03.1 operator tables agree with PEP 508: `_operators` (markers/single.py) and GenericSpecifier._op_map map every operator string
        to its canonical comparison (lambdas parsed: `lhs in rhs` / `lhs not in rhs` with parameter order); `invert_map` is the
        complement table; `_op_reflect_map` maps every ordering operator to its converse.
  R03.2 (bounded ABSINT) for marker TEXTS generated from a PEP 508 grammar (atoms in both operand orders for every operator valid
        for the variable; and / or / parentheses up to depth 2, incl. the precedence-sensitive `a or b and c`), the interpreted
        parse_marker(text) — packaging's parser replaced by an own PEP 508 grammar producing the same `_markers` structure — denotes
        exactly the meaning of the text on the environment grid.
  R03.3 the interpreted evaluate(env) of parsed markers (compound plumbing, metadata / lock_file context defaults, PEP 685
        normalisation of extras, set-valued extras / dependency_groups) equals the reference meaning.
Not decided: packaging's own parser and Marker.evaluate (a second program's runtime behaviour); only the PEP 508 semantics they implement.
"""
from __future__ import annotations

import ast
import itertools
import random

from ..absint import AObj, Bound, MISSING, PyRaise
from .. import markexplore as mx
from ..markdomain import MarkerTextError, Undefined, normalize_name, parse_marker_text, tree_mask
from ..rules_tables import const_dict, module_tree, reflect_map_involution
from ..specalg import parallel
from ..strdomain import COMPLEMENT

CANON = {"lt": "<", "le": "<=", "eq": "==", "ne": "!=", "ge": ">=", "gt": ">"}


def table_semantics(chk, node, where):
    """value node of an operator table -> PEP 508 operator string it implements"""
    if isinstance(node, ast.Attribute) and isinstance(node.value, ast.Name) and node.value.id == "operator":
        return CANON.get(node.attr, f"operator.{node.attr}")
    if isinstance(node, ast.Lambda) and len(node.args.args) == 2 and isinstance(node.body, ast.Compare) and len(node.body.ops) == 1:
        a, b = node.args.args[0].arg, node.args.args[1].arg
        l, r = node.body.left, node.body.comparators[0]
        if isinstance(l, ast.Name) and isinstance(r, ast.Name):
            opn = {ast.In: "in", ast.NotIn: "not in", ast.Eq: "==", ast.NotEq: "!=", ast.Lt: "<", ast.LtE: "<=", ast.Gt: ">", ast.GtE: ">="}.get(type(node.body.ops[0]))
            if (l.id, r.id) == (a, b):
                return opn
            if (l.id, r.id) == (b, a):
                return f"swapped {opn}"
    return f"unrecognised {ast.unparse(node)}"


def tables(chk):
    """R03.1 by evaluating the module-level tables in the interpreter (robust to how the dict is built) and probing every entry on
    sample operand pairs against the PEP 508 semantics."""
    from ..absint import Interp, PyRaise as _PR
    from ..strdomain import SEM, CONVERSE
    it = Interp(str(chk.src))
    probes = [("a", "ab"), ("ab", "a"), ("a", "a"), ("a", "b"), ("b", "a"), ("", "a"), ("ab", "ab")]
    single = it.module("dep_logic.markers.single")
    generic = it.module("dep_logic.specifiers.generic")
    G = generic.ns.get("GenericSpecifier")
    chk.require(G is not None, "anchor GenericSpecifier missing")
    cands = []
    # the operator tables are private: take whatever module-level / class-level dict maps PEP 508 operators to callables (a renamed
    # table is found again; when none exists any more the operators are only judged through evaluate(), R03.2/R03.3)
    for where, ns in (("dep_logic.markers.single", single.ns), ("dep_logic.specifiers.generic", it.resolve(G).ns)):
        for name, v in list(ns.items()):
            try:
                v = it.resolve(v) if not (isinstance(v, tuple) and v and v[0] == "classvar_lazy") else it.getattr(G, name)
            except Exception:
                continue
            if isinstance(v, dict) and v and all(isinstance(k, str) for k in v) and any(k in SEM for k in v) and \
                    all(not isinstance(x, (str, int, dict, list, tuple, type(None))) or (isinstance(x, tuple) and x and x[0] in ("builtin", "lazy")) for x in v.values()):
                cands.append((where, name, v))
    if not cands:
        chk.notes.append("R03.1: no operator table found in markers/single.py or specifiers/generic.py; operators are judged through evaluate() only")
    for where, name, table in cands:
        chk.instance("R03.1")
        for k, f in table.items():
            if k not in SEM:
                chk.fail("R03.1", f"{where}:{name}[{k!r}]", f"{name} has an entry for {k!r}, which is not a PEP 508 comparison operator")
                continue
            try:
                got = [bool(it.truth(it.call(f, [l, r], {}))) for l, r in probes]
            except _PR as e:
                chk.fail("R03.1", f"{where}:{name}[{k!r}]", f"{name}[{k!r}] raises {e.exc!r} on string operands")
                continue
            exp = [SEM[k](l, r) for l, r in probes]
            if got != exp:
                i = next(i for i in range(len(probes)) if got[i] != exp[i])
                chk.fail("R03.1", f"{where}:{name}[{k!r}]", f"{name}[{k!r}]{probes[i]} is {got[i]}; PEP 508 `{probes[i][0]!r} {k} {probes[i][1]!r}` is {exp[i]}")
            else:
                chk.ok("R03.1", key=(name, k))
        for need in ("in", "not in", "<", "<=", "==", "!=", ">=", ">"):
            if need not in table:
                chk.fail("R03.1", f"{where}:{name}[{need!r}]", f"{name} lacks operator {need!r}")
    utils = it.module("dep_logic.utils")
    from ..rules_tables import probe_reflect_map
    refl = probe_reflect_map(chk, it)
    chk.instance("R03.1")
    for k, v in refl.items():
        if refl.get(v) != k:
            chk.fail("R03.1", f"dep_logic.utils:_op_reflect_map[{k!r}]", f"_op_reflect_map is not an involution at {k!r}: {k!r} -> {v!r} -> {refl.get(v)!r}")
        elif k in CONVERSE and CONVERSE[k] != v:
            chk.fail("R03.1", f"dep_logic.utils:_op_reflect_map[{k!r}]", f"_op_reflect_map[{k!r}] = {v!r}, but the converse of `{k}` is `{CONVERSE[k]}`")
        else:
            chk.ok("R03.1", key=("reflect", k))
    for k in CONVERSE:
        if k not in refl:
            chk.fail("R03.1", f"dep_logic.utils:_op_reflect_map[{k!r}]", f"_op_reflect_map lacks operator {k!r}")


def atom_texts():
    out = []
    for op in ("==", "!=", "in", "not in"):
        for v in ("a", "ab"):
            out.append(f'os_name {op} "{v}"')
            out.append(f'"{v}" {op} os_name')
    for op in ("==", "!="):
        out.append(f'sys_platform {op} "b"')
        out.append(f'extra {op} "e1"')
        out.append(f'"e2" {op} extra')
    for op in ("<", "<=", "==", "!=", ">=", ">", "~="):
        out.append(f'python_version {op} "3.8"')
        out.append(f'"3.8" {op} python_version')
        out.append(f'python_full_version {op} "3.7.2"')
    out += ['python_version in "3.7, 3.8"', 'python_version not in "3.7, 3.8"', 'python_full_version == "3.7.*"', 'python_full_version != "3.7.*"',
            '"3.7.2" <= python_full_version', 'python_version >= "3"', "os_name == 'b'",
            '"t" in extras', '"t-x" in extras', '"t" not in extras', '"T_X" in extras',
            'python_version > "3"', 'python_version <= "3"', 'python_version == "3"', 'python_version != "3"', '"3.7.2" > python_full_version',
            '"3.8.0" < python_full_version', 'python_version >= "3.8.0"', 'python_version != "3.7.0"']
    return out


def _atoms_of(tree):
    if tree[0] == "atom":
        yield tree
    else:
        for x in tree[1]:
            yield from _atoms_of(x)


NOCONV = ("in", "not in", "~=", "===")


def _has_noconv_literal_left(text):
    try:
        return any(t[4] and t[2] in NOCONV for t in _atoms_of(parse_marker_text(text)))
    except MarkerTextError:
        return False


def _work(task):
    src, texts, tag = task
    # texts with a literal-on-the-left atom whose operator has no converse (the known MarkerExpression.reversed finding) are analysed in
    # their own interpreter instance: such atoms are stored in the library's lru_caches under the key of their non-reversed twin and
    # would otherwise be handed to unrelated texts analysed later in the same process (that history effect is C10's finding)
    dom = mx.domain(src, tag)
    fails, n = [], 0
    for text in texts:
        n += 1
        if tag == "noconv":
            dom.it.clear_caches()    # each such text meets a cold library: no twin objects from other texts in the caches
        try:
            tree = parse_marker_text(text)
            exp = tree_mask(dom.envs, tree)
        except (MarkerTextError, Undefined) as e:
            continue
        try:
            m = dom.parse(text, budget=mx.STEP_BUDGET)
        except PyRaise as e:
            fails.append(("R03.2", "dep_logic.markers:parse_marker:raises", f"parse_marker({text!r}) raises {e.exc!r}", None))
            continue
        except Exception as e:
            if "step budget" in str(e):
                continue
            raise
        got = dom.den(m)
        if got != exp:
            ats = list(_atoms_of(tree))
            PY = {"python_version", "python_full_version"}

            def same_var(u, t):
                return u is not t and (u[1] == t[1] or {u[1], t[1]} <= PY)
            # a literal-on-the-left atom whose operator has no converse, together with another atom on the same variable: the merge
            # logic ignores `reversed` (known finding); the key names the operator pair so that a NEW wrong pair is still reported
            # ... except operator pairs the unchanged merge table never combines (two containment atoms of the same polarity and
            # orientation with different literals): a wrong merge there is new behaviour, not the known finding
            pairs = sorted({(t[2], u[2], u[4], t[3] == u[3]) for t in ats if t[4] and t[2] in NOCONV for u in ats if same_var(u, t)})
            covered = [p for p in pairs if not (p[0] in ("in", "not in") and p[1] == p[0] and p[2] and not p[3])]
            if covered:
                key = f"dep_logic.markers:_build_markers:literal-left-no-converse:{covered[0][0]}"
            else:
                key = dom.blame("dep_logic.markers:_build_markers")
            fails.append(("R03.2", key,
                          f"parse_marker({text!r}) -> {dom.show(m)} differs from the PEP 508 meaning at {dom.first_diff(got, exp)}",
                          {"text": text, "path": dom.path()}))
            continue
        # observer: interpreted evaluate on a few environments
        for i in (0, dom.envs.n // 3, dom.envs.n // 2, dom.envs.n - 1):
            env = {k: (set(v) if isinstance(v, frozenset) else v) for k, v in dom.envs.envs[i].items()}
            try:
                ev = dom.evaluate(m, env)
            except PyRaise as e:
                fails.append(("R03.3", f"{m.cls.module.name}:{m.cls.name}.evaluate:raises", f"evaluate of {text!r} raises {e.exc!r} at {dom.envs.describe(i)}", None))
                break
            if ev != bool((exp >> i) & 1):
                fails.append(("R03.3", f"{m.cls.module.name}:{m.cls.name}.evaluate", f"parse_marker({text!r}).evaluate({dom.envs.describe(i)}) is {ev}, PEP 508 meaning is {not ev}", None))
                break
    return {"fails": fails, "n": n}


def contexts(chk, dom):
    """R03.3: context defaults and PEP 685 normalisation through the interpreted SingleMarker.evaluate."""
    it = dom.it
    cases = [
        ('extra == "e1"', {}, "metadata", False), ('extra != "e1"', {}, "metadata", True),
        ('extra == "E_1"', {"extra": "e-1"}, "metadata", True), ('extra == "e.1"', {"extra": {"E_1", "x"}}, "metadata", True),
        ('extra == "e1"', {"extra": None}, "metadata", False), ('extra == "e__1"', {"extra": "e-1"}, "metadata", True),
        ('extra == "e-1"', {"extra": "e--1"}, "metadata", True), ('extra != "e-1"', {"extra": {"x", "e---1"}}, "metadata", False),
        ('"d-ev" in extras', {"extras": {"d--ev"}}, "lock_file", True), ('"d-ev" not in dependency_groups', {"dependency_groups": {"d-_-ev"}}, "lock_file", False),
        ('extra == "e--1"', {"extra": "e-1"}, "metadata", True),
        ('extra == "e-.-1"', {"extra": {"E_1"}}, "metadata", True), ('extra != "E.1"', {"extra": "e_1"}, "metadata", False),
        ('"dev" in extras', {}, "lock_file", False), ('"dev" not in extras', {}, "lock_file", True),
        ('"D_ev" in extras', {"extras": {"d-ev"}}, "lock_file", True), ('"docs" in dependency_groups', {"dependency_groups": {"Docs"}}, "lock_file", True),
        ('"docs" not in dependency_groups', {"dependency_groups": {"test"}}, "lock_file", True),
        ('"docs" in dependency_groups', {}, "lock_file", False), ('"docs" not in dependency_groups', {}, "lock_file", True),
    ]
    for text, env, ctx, exp in cases:
        chk.instance("R03.3")
        try:
            m = dom.parse(text)
            f, _ = m.cls.lookup("evaluate")
            got = it.truth(it.call(Bound(f, m), [dict(env), ctx], {}))
        except PyRaise as e:
            chk.fail("R03.3", "dep_logic.markers.single:SingleMarker.evaluate:raises", f"{text!r}.evaluate({env}, {ctx!r}) raises {e.exc!r}")
            continue
        if got != exp:
            chk.fail("R03.3", "dep_logic.markers.single:SingleMarker.evaluate:context", f"{text!r}.evaluate({env}, context={ctx!r}) is {got}, PEP 508/685 reference is {exp}")
        else:
            chk.ok("R03.3", key=(text, ctx, str(env)))


def prerelease_envs(chk, dom):
    """R03.3: single-atom texts evaluated at pre-/post-/dev-release interpreter versions (PEP 440 exclusive ordering)."""
    from ..markdomain import atom_truth
    from .c02 import OBS_PRERELEASE
    base = {k: (set(v) if isinstance(v, frozenset) else v) for k, v in dom.envs.envs[0].items()}
    for text in atom_texts():
        tree = parse_marker_text(text)
        if tree[0] != "atom" or not tree[1].startswith("python"):
            continue
        try:
            m = dom.parse(text)
        except PyRaise:
            continue
        for full in OBS_PRERELEASE:
            pv = ".".join(full.split(".")[:2])
            env = dict(base)
            env["python_full_version"], env["python_version"] = full, pv
            val = full if tree[1] == "python_full_version" else pv
            try:
                exp = atom_truth(tree[1], tree[2], tree[3], tree[4], val)
                got = dom.evaluate(m, env)
            except Undefined:
                continue
            except PyRaise as e:
                chk.fail("R03.3", "dep_logic.markers.single:MarkerExpression._evaluate:raises", f"{text!r} at {val}: {e.exc!r}")
                continue
            chk.instance("R03.3")
            if got != exp:
                chk.fail("R03.3", f"dep_logic.markers.single:MarkerExpression._evaluate:prerelease-env{':literal-left' if tree[4] else ''}",
                         f"parse_marker({text!r}).evaluate at {tree[1]}={val!r} is {got}; the PEP 508/440 reference is {exp}")
            else:
                chk.ok("R03.3", key=(text, val))


PEP508_VARIABLES = ["python_version", "python_full_version", "os_name", "os.name", "sys_platform", "sys.platform", "platform_release",
                    "platform_system", "platform_version", "platform.version", "platform_machine", "platform.machine",
                    "platform_python_implementation", "platform.python_implementation", "python_implementation", "implementation_name",
                    "implementation_version", "extra", "extras", "dependency_groups"]
NOT_VARIABLES = ["python", "version", "os", "platform", "implementation", "extra_", "groups", "and", "or", "in", "not"]


def variable_rule(chk):
    """R03.5: the VARIABLE token rule installed into packaging's tokenizer (markers/__init__._patch_marker_parser) matches exactly the
    PEP 508 / PEP 751 variable names.  The regex literal is read from the AST and compiled with the stdlib `re` (a pure constant)."""
    import re
    tree = module_tree(chk, "markers/__init__.py")
    pat = None
    for n in ast.walk(tree):
        if isinstance(n, ast.Assign) and isinstance(n.targets[0], ast.Subscript) and isinstance(n.value, ast.Call) and ast.unparse(n.value.func) == "re.compile":
            key = n.targets[0].slice
            if isinstance(key, ast.Constant) and key.value == "VARIABLE" and n.value.args and isinstance(n.value.args[0], ast.Constant):
                flags = 0
                for a in n.value.args[1:]:
                    for nm in ast.walk(a):
                        if isinstance(nm, ast.Attribute) and nm.attr in ("VERBOSE", "X"):
                            flags |= re.VERBOSE
                        if isinstance(nm, ast.Attribute) and nm.attr in ("IGNORECASE", "I"):
                            flags |= re.IGNORECASE
                pat = re.compile(n.value.args[0].value, flags)
    chk.instance("R03.5")
    if pat is None:
        chk.notes.append("R03.5: no `[...]['VARIABLE'] = re.compile(<literal>)` assignment found in markers/__init__.py; the token rule is then "
                         "only covered through the parsed texts of R03.2")
        return
    for v in PEP508_VARIABLES:
        m = pat.match(v)
        if not m or m.end() != len(v):
            chk.fail("R03.5", f"dep_logic.markers:_patch_marker_parser:VARIABLE:{v}", f"the VARIABLE token rule does not match the marker variable {v!r} completely")
        else:
            chk.ok("R03.5", key=v)
    for v in NOT_VARIABLES:
        m = pat.match(v)
        if m and m.end() == len(v):
            chk.fail("R03.5", f"dep_logic.markers:_patch_marker_parser:VARIABLE:{v}", f"the VARIABLE token rule accepts {v!r}, which is not a marker variable")
        else:
            chk.ok("R03.5", key=("not", v), nontrivial=False)


def run(chk):
    src = str(chk.src)
    chk.explanation = (
        "Operator tables extracted from the AST and compared with the PEP 508 vocabulary; bounded ABSINT of parse_marker/_build_markers and "
        "evaluate from source on marker texts generated from a PEP 508 grammar, against an independent grammar + semantics (own parser, PEP 440 "
        "model) on an environment grid. The reference is the PEP 508 semantics packaging implements, not packaging's code.")
    chk.rule("R03.1", "operator tables agree with PEP 508 (each entry probed on operand pairs; reflect map = converse, involution)", min_instances=1)
    chk.rule("R03.2", "parse_marker(text) denotes the PEP 508 meaning of the text")
    chk.rule("R03.3", "evaluate(): compound plumbing, context defaults, PEP 685 normalisation", min_instances=10)
    tables(chk)
    chk.rule("R03.5", "VARIABLE token rule matches exactly the marker variable names", min_instances=1)
    variable_rule(chk)
    dom = mx.domain(src)
    atoms = atom_texts()
    texts = list(atoms)
    rnd = random.Random(chk.seed)
    pairs = list(itertools.permutations(atoms, 2))
    rnd.shuffle(pairs)
    npairs = 700 if chk.tier == "quick" else 4000
    for a, b in pairs[:npairs]:
        texts.append(f"{a} and {b}")
        texts.append(f"{a} or {b}")
    # structured family: every python_version atom with every python_full_version atom (same literal text included), both connectives,
    # both orders — the normalisation/merging of the two variables is the most intricate path of the parser glue
    pv = [t for t in atoms if "python_version" in t and not t.startswith('"')] + ['python_version > "3.7"', 'python_version <= "3.7"', 'python_version == "3.7"']
    pfv = [t for t in atoms if "python_full_version" in t and not t.startswith('"')] + [f'python_full_version {op} "{v}"' for op in (">", "<=", "==", "!=", ">=", "<") for v in ("3.8", "3.7")]
    for a in pv:
        for b in pfv:
            texts.append(f"{a} and {b}")
            texts.append(f"{b} or {a}")
    # same-variable pairs of == / != atoms with literals that are equal as versions but spelled differently, or not of the X.Y shape
    for lits in (("3", "3.8"), ("3.7.0", "3.8"), ("3.0", "3"), ("3.8", "3.8.0")):
        texts.append(f'python_version == "{lits[0]}" or python_version == "{lits[1]}"')
        texts.append(f'python_version != "{lits[0]}" and python_version != "{lits[1]}"')
        texts.append(f'python_full_version == "{lits[0]}" or python_full_version == "{lits[1]}"')
    setv = ['"t" in extras', '"t-x" in extras', '"t" not in extras', '"t-x" not in extras', '"x" in extras']
    for a in setv:
        for b in setv:
            if a != b:
                texts.append(f"{a} and {b}")
                texts.append(f"{a} or {b}")
    triples = 500 if chk.tier == "quick" else 4000
    for _ in range(triples):
        a, b, c = rnd.sample(atoms, 3)
        form = rnd.randrange(5)
        texts.append([f"{a} or {b} and {c}", f"({a} or {b}) and {c}", f"{a} and ({b} or {c})", f"{a} and {b} or {c}", f"({a} and {b}) or ({a} and {c})"][form])
    clean = [t for t in texts if not _has_noconv_literal_left(t)]
    tainted = [t for t in texts if _has_noconv_literal_left(t)]
    per = max(1, (len(texts) + chk.jobs * 3 - 1) // (chk.jobs * 3))
    tasks = [(src, clean[i:i + per], None) for i in range(0, len(clean), per)] + [(src, tainted[i:i + per], "noconv") for i in range(0, len(tainted), per)]
    total = 0
    for r in parallel(_work, tasks, chk.jobs):
        total += r["n"]
        for f in r["fails"]:
            chk.fail(*f)
    chk.rules["R03.2"]["instances"] += total
    bad = len(chk.violations) + len(chk.known_hits)
    good = max(0, total - bad)
    chk.obligations += good
    chk.discharged += good
    chk.evaluations += good
    chk.nontrivial.update(("R03.2", i) for i in range(max(0, good - len(atoms))))
    contexts(chk, dom)
    prerelease_envs(chk, dom)
    chk.sample({"text": texts[len(atoms) + 3]})
    chk.sample({"text": texts[-1]})
    chk.exhaustive = False
    chk.analysed = {"atom_texts": len(atoms), "texts": total, "environments": dom.envs.n}
    chk.extra["rule_text"] = "texts = atoms, seeded pairs with and/or, seeded triples in 5 precedence/parenthesis forms; non-trivial = composite texts"
    chk.trusted += ["own PEP 508 grammar + semantics (vsa/markdomain.py), PEP 440 model (vsa/pkgmodel.py) as the reference instead of packaging"]
