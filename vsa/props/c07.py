"""C07 — marker text round-trip (DESIGN.md §4 C07).

  R07.1 (bounded ABSINT + own PEP 508 grammar) the interpreted str(m) of every marker of the explored universe, parsed by an
        independent recursive-descent parser of the PEP 508 marker grammar (and binds tighter than or), denotes exactly den(m).
  R07.3 the universal marker renders as '' and the empty marker as '<empty>';  R07.5 '<empty>' never appears inside a larger text.
  R07.6 str(m) is accepted by the PEP 508 grammar;  R07.7 the code's own parse_marker(str(m)) (interpreted, packaging's parser
        replaced by the own grammar) denotes den(m).
  R07.2 (RULES) _op_reflect_map is an involution; R07.8 token agreement '<empty>' / '' / '*' between writers and parse_marker.
"""
from __future__ import annotations

import ast

from .. import markexplore as mx
from .. import markprops  # noqa: F401
from ..rules_tables import reflect_map_involution
from ..absint import PyRaise


def run(chk):
    chk.explanation = (
        "Bounded ABSINT of __str__ on every distinct marker of the explored universe; the rendered text is given meaning by an "
        "independent PEP 508 grammar (precedence, parentheses, literal-on-the-left) and compared with the structural denotation; "
        "then re-parsed by the interpreted parse_marker. Plus table rules on the reflect map and special tokens.")
    for rid, d in (("R07.1", "rendered text means the same under PEP 508 precedence"), ("R07.3", "special renderings"),
                   ("R07.5", "<empty> never inside a larger marker"), ("R07.6", "rendered text is valid PEP 508"),
                   ("R07.7", "parse_marker(str(m)) is equivalent to m")):
        chk.rule(rid, d)
    chk.rule("R07.2", "_op_reflect_map is an involution", min_instances=1)
    chk.rule("R07.8", "token agreement between renderers and parse_marker", min_instances=3)
    dom = mx.domain(str(chk.src))
    keys, ndistinct = mx.collect_universe(chk, limit=3000 if chk.tier == "quick" else 30000)
    # value-first containment atoms ("win" in sys_platform): alone and inside compounds over other variables (no same-variable partner:
    # their merging is the known C03/C13 finding); their text must keep the direction of the containment
    # (values chosen so that no non-reversed atom of the vocabulary is an equal-keyed twin: twins would meet in the library's caches)
    vf = [("ME", "sys_platform", "in", "a", True), ("ME", "sys_platform", "not in", "b", True), ("ME", "sys_platform", "in", "win", True)]
    others = [("ME", "python_version", ">=", "3.8", False), ("ME", "extra", "==", "e1", False)]
    keys = list(keys) + vf + [(k, a, b) for k in ("MultiMarker", "MarkerUnion") for a in vf[:2] for b in others]
    u = mx.phase_u(chk, keys, "c07")
    chk.rules["R07.1"]["instances"] += u["n"]
    bad = len(chk.violations) + len(chk.known_hits)
    good = max(0, u["n"] - bad)
    chk.obligations += good
    chk.discharged += good
    chk.evaluations += good
    chk.nontrivial.update(("R07", i) for i in range(u["nontriv"]))
    reflect_map_involution(chk, "R07.2")
    # R07.8 by interpretation (robust to helper extraction): the special texts parse to the special markers and render back
    for text, want in (("<empty>", dom.Empty), ("", dom.Any), ("*", dom.Any)):
        chk.instance("R07.8")
        try:
            m = dom.parse(text)
        except PyRaise as e:
            chk.fail("R07.8", f"dep_logic.markers:parse_marker:{text!r}", f"parse_marker({text!r}) raises {e.exc!r}")
            continue
        if m.cls is not want:
            chk.fail("R07.8", f"dep_logic.markers:parse_marker:{text!r}", f"parse_marker({text!r}) is {dom.show(m)}, expected {want.name}")
        elif text != "*" and dom.to_text(m) != text:
            chk.fail("R07.8", f"{m.cls.module.name}:{m.cls.name}.__str__", f"{want.name} renders as {dom.to_text(m)!r}, not {text!r}")
        else:
            chk.ok("R07.8", key=text)
    chk.analysed = {"markers": len(keys), "distinct_level1_results": ndistinct, "obligations": u["n"], "skipped_budget": u["skipped"]}
    chk.exhaustive = False
    chk.trusted += ["own PEP 508 marker grammar (vsa/markdomain.py) stands in for packaging's parser", "PEP 440 model (vsa/pkgmodel.py)"]
    chk.assumptions += ["markers within the vocabulary of vsa/markexplore.py; quoting of exotic literals not decided"]
