"""C08 — wheel python/ABI compatibility (DESIGN.md §4 C08).

  R08.1 residual table: EnvSpec._evaluate_python specialised on every (implementation, python tag, abi tag) of the static
        vocabulary with requires_python symbolic; each residual is `None` or `None if empty(TEMPLATE & requires_python) else
        score`; the TEMPLATE's meaning on a grid of interpreters (PEP 440 model) and the score must equal the PEP 425/3149/703
        rule table as C08 states it.
  R08.2 requires_python is used only as `(template & requires_python).is_empty()` (enforced by the symbolic value's
        operation whitelist — any other use aborts the analysis).
  R08.3 compatibility() = max over the python x abi product joined with the best platform score; None iff nothing accepted.
"""
from __future__ import annotations

import itertools

from ..absint import AObj, Bound, MISSING, PyRaise
from ..tagsdomain import IMPLS, TagsDomain, abi_tags, python_tags, rule_table


def cell_class(ptag, abi, impl):
    kind = "abi3" if abi == "abi3" else "none" if abi == "none" else "concrete"
    return f"{ptag[:2]}{'XY' if ptag[3:] else 'X'}-{kind}"


def run(chk):
    chk.explanation = (
        "Partial evaluation (ABSINT with forking symbolic booleans) of EnvSpec._evaluate_python over the static PEP 425/3149/703 tag "
        "vocabulary with requires_python symbolic; residual decision table compared with the rule table of the property; template "
        "specifiers are interpreted by the PEP 440 model over a grid of interpreter versions (majors 2-4, minors 0-22).")
    chk.rule("R08.1", "residual of _evaluate_python equals the PEP rule table (admitted interpreters and score)")
    chk.rule("R08.2", "requires_python only flows into `& ... .is_empty()`", min_instances=1)
    chk.rule("R08.3", "compatibility() is the max over combinations, None iff none accepted", min_instances=1)
    dom = TagsDomain(str(chk.src))
    dom.symbolic()
    FN = "dep_logic.tags.tags:EnvSpec._evaluate_python"
    n = 0
    classes = {}
    from ..absint import AnalysisError
    try:
        n = _symbolic_table(chk, dom, FN, classes)
        chk.instance("R08.2")
        chk.ok("R08.2", key="whitelist", n=1)
    except AnalysisError as e:
        if "symbolic" not in str(e) and "parametric" not in str(e) and "requires_python" not in str(e):
            raise
        chk.notes.append(f"R08.1/R08.2: _evaluate_python is no longer parametric in requires_python ({e}); the symbolic residual table was "
                         f"abandoned and the decision rests on the concrete requires_python grid (R08.4)")
        chk.rules["R08.2"]["min_instances"] = None
    # R08.4: concrete requires_python grid x the whole tag vocabulary, judged against the rule table on a fine interpreter grid
    from ..tagsdomain import RP_GRID, concrete_work
    from ..specalg import parallel
    chk.rule("R08.4", "on a grid of concrete requires_python values every tag triple is accepted iff some admitted interpreter can load it, with the right score")
    grid = RP_GRID if chk.tier == "thorough" else RP_GRID[:18]
    tot = 0
    for r in parallel(concrete_work, [(str(chk.src), t) for t in grid], chk.jobs):
        tot += r["n"]
        for rp_text, impl, pt, abi, got, exp in r["mismatches"]:
            cc = cell_class(pt, abi, impl)
            chk.fail("R08.4", f"{FN}:{cc}:concrete:{'accepts' if got is not None and exp is None else 'rejects' if got is None else 'score'}",
                     f"requires_python {rp_text!r}, implementation={impl}, python tag {pt}, abi tag {abi}: code returns {got}, "
                     f"the rule table with the admitted interpreters gives {exp}", {"requires_python": rp_text, "python_tag": pt, "abi_tag": abi})
    chk.instance("R08.4", tot)
    nbad = sum(1 for v in chk.violations if v["rule"] == "R08.4")
    chk.ok("R08.4", key="grid", n=max(0, tot - nbad))
    _compat(chk, dom, n, classes)


def _symbolic_table(chk, dom, FN, classes):
    n = 0
    for impl in IMPLS:
        for pt in python_tags():
            for abi in abi_tags(pt):
                n += 1
                got = dom.residual(impl, pt, abi)
                exp = rule_table(pt, abi, impl)
                cc = cell_class(pt, abi, impl)
                desc = f"implementation={impl}, python tag {pt}, abi tag {abi}"
                if got is not None and got[0] == "weird":
                    chk.fail("R08.1", f"{FN}:{cc}:residual-shape", f"{desc}: residual is not of the form None / (empty(T & requires_python) ? None : score): {got[1]}")
                    continue
                if got is not None and got[0] == "always":
                    chk.fail("R08.2", f"{FN}:{cc}:ignores-requires_python", f"{desc}: returns {got[1]} without consulting requires_python")
                    continue
                if (got is None) != (exp is None):
                    chk.fail("R08.1", f"{FN}:{cc}:{'rejects' if got is None else 'accepts'}",
                             f"{desc}: code {'rejects' if got is None else 'may accept (template ' + got[1] + ')'}, "
                             f"rule table says {'reject' if exp is None else 'accept for ' + _descr(exp[0])}",
                             {"impl": impl, "python_tag": pt, "abi_tag": abi, "derived": None if got is None else got[1:], "expected": None if exp is None else exp[1]})
                    continue
                if got is None:
                    chk.ok("R08.1", key=(cc, "reject", impl, pt, abi), nontrivial=False)
                    continue
                _, text, score = got
                try:
                    tset = dom.tset(text)
                except PyRaise:
                    chk.fail("R08.1", f"{FN}:{cc}:template", f"{desc}: template {text!r} is not a valid specifier")
                    continue
                if tset != exp[0]:
                    chk.fail("R08.1", f"{FN}:{cc}:template", f"{desc}: wheel range template {text!r} admits {_descr(tset)}, the rule table says {_descr(exp[0])}",
                             {"impl": impl, "python_tag": pt, "abi_tag": abi, "template": text})
                elif tuple(score) != exp[1]:
                    chk.fail("R08.1", f"{FN}:{cc}:score", f"{desc}: score {tuple(score)} != expected {exp[1]} (major, minor, native 2 > abi3 1 > none 0)")
                else:
                    chk.ok("R08.1", key=(cc, impl, pt, abi))
                    if n % 211 == 0:
                        chk.sample({"impl": impl, "python_tag": pt, "abi_tag": abi, "residual": f"None if empty({text} & requires_python) else {tuple(score)}"})
                classes[cc] = classes.get(cc, 0) + 1
    chk.instance("R08.1", n)
    return n


def _compat(chk, dom, n, classes):
    # R08.3 on concrete requires_python values (interpreted specifier algebra + PEP 440 model); a fresh interpreter, so that no
    # module-level state of the symbolic phase (e.g. a hand-rolled memo holding symbolic templates) leaks into it
    dom = TagsDomain(str(chk.src))
    it = dom.it
    pvs = it.resolve(it.module("dep_logic.specifiers").ns["parse_version_specifier"])
    comp, _ = dom.EnvSpec.lookup("compatibility")
    chk.require(comp is not MISSING, "anchor EnvSpec.compatibility missing")
    cases = 0
    for rp_text in (">=3.8", "<3.8", "==3.7.*", ">=3.6,<3.10", "!=3.8.*", "<empty>"):
        rp = it.call(pvs, [rp_text], {})
        for impl in (None, ("cpython", False), ("cpython", True)):
            spec = dom.envspec(rp, None, impl)
            for ptags, atags in ((["cp38", "cp39"], ["cp38", "abi3"]), (["py3"], ["none"]), (["py2", "py3"], ["none"]),
                                 (["cp37"], ["cp37m"]), (["cp313"], ["cp313t", "cp313"]), (["pp39"], ["pypy39_pp73"]), ([], ["none"])):
                cases += 1
                per = []
                for p, a in itertools.product(ptags, atags):
                    r = dom.py_eval(spec, p, a)
                    if r is not None:
                        per.append(tuple(r))
                exp = None if not per else max(per) + (-1,)
                got = it.call(Bound(comp, spec), [list(ptags), list(atags), ["any"]], {})
                got = None if got is None else tuple(got)
                if got != exp:
                    chk.fail("R08.3", "dep_logic.tags.tags:EnvSpec.compatibility",
                             f"compatibility({ptags}, {atags}, ['any']) with requires_python {rp_text!r}, implementation {impl} is {got}; "
                             f"max over combinations is {exp}")
                else:
                    chk.ok("R08.3", key=(rp_text, impl, tuple(ptags), tuple(atags)))
    chk.instance("R08.3", cases)
    chk.exhaustive = True
    chk.analysed = {"specialisations": n, "cell_classes": classes, "grid_interpreters": 138, "compatibility_cases": cases}
    chk.extra["rule_text"] = ("one obligation per (implementation, python tag, abi tag) of the vocabulary; non-trivial = accepted cells "
                              "(template and score compared) — rejected cells are counted trivial")
    chk.trusted += ["PEP 425/3149/703 rule table as stated by C08 (vsa/tagsdomain.py:rule_table)", "PEP 440 model for template meaning"]
    chk.assumptions += ["tag vocabulary: impl in {cp,py,pp,pt}, majors 2-3, minors {none,0,7,10,13,20}, abi shapes incl. flag suffixes, prefix trap, pypy/pyston style"]


def _descr(s):
    mm = sorted({(g[0], g[1]) for g in s})
    if not mm:
        return "no interpreter"
    if len(mm) == 1:
        return f"{mm[0][0]}.{mm[0][1]} only"
    majors = sorted({m[0] for m in mm})
    return f"{len(mm)} minor versions, majors {majors}, from {mm[0][0]}.{mm[0][1]} to {mm[-1][0]}.{mm[-1][1]}"
