"""RelStr — representative strings for the relation-only lemma (DESIGN.md §2.3): string literals are touched
only through ==, `in`, hashing (and, for the ordering operators of the generic table, <) so behaviour depends
only on the relation class of the strings involved."""
from __future__ import annotations

import itertools
import operator

OPS4 = ["==", "!=", "in", "not in"]
OPS_ORD = ["<", "<=", ">", ">="]

SEM = {
    "==": lambda s, v: s == v,
    "!=": lambda s, v: s != v,
    "in": lambda s, v: s in v,
    "not in": lambda s, v: s not in v,
    "<": operator.lt, "<=": operator.le, ">": operator.gt, ">=": operator.ge,
}
COMPLEMENT = {"==": "!=", "!=": "==", "in": "not in", "not in": "in", "<": ">=", ">=": "<", ">": "<=", "<=": ">"}
CONVERSE = {"<": ">", ">": "<", "<=": ">=", ">=": "<=", "==": "==", "!=": "!="}  # in / not in / ~= / === have none


def pool(alphabet="ab", maxlen=3):
    return [""] + ["".join(p) for n in range(1, maxlen + 1) for p in itertools.product(alphabet, repeat=n)]


def signature(v1, v2, s):
    return (v1 == v2, v1 in v2, v2 in v1, s == v1, s in v1, s == v2, s in v2)


def signatures(strings):
    return {signature(a, b, s) for a in strings for b in strings for s in strings}
