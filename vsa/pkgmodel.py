"""External summary of `packaging` (trusted base = PEP 440 / PEP 508 as written, not packaging's code):

  Version(text)        -> VersionVal: PEP 440 parse (appendix B grammar), total order by the PEP 440 key,
                          attributes epoch/release/pre/post/dev/is_*release/major/minor/micro, str() = normal form
  Specifier(text)      -> SpecifierVal: operator, version, contains(candidate) per the PEP 440 operator table
  SpecifierSet(text)   -> SpecifierSetVal: comma-separated clauses; iter, len, contains (conjunction)

packaging itself is never imported.  The model is used wherever the interpreted repository code calls into
packaging; its fidelity is an assumption listed in every evidence file that uses it.
"""
from __future__ import annotations

import re

from .absint import AnalysisError, BuiltinExcValue, EXC, PyRaise, Sym, VTok
from .pkgspec import _PEP440, _PRE

NEG, POS = (0,), (2,)


def _mid(x):
    return (1, x)


class VersionVal(VTok):
    __slots__ = ("text", "epoch", "release", "pre", "post", "dev", "local")

    def __init__(self, text):
        m = _PEP440.match(text) if isinstance(text, str) else None
        if not m:
            raise PyRaise(BuiltinExcValue(EXC["InvalidVersion"], (text,)))
        self.text = text
        self.epoch = int(m.group("epoch") or 0)
        self.release = tuple(int(x) for x in m.group("release").split("."))
        self.pre = (_PRE[m.group("pre_l").lower()], int(m.group("pre_n") or 0)) if m.group("pre") else None
        self.post = int(m.group("post_n1") or m.group("post_n2") or 0) if m.group("post") else None
        self.dev = int(m.group("dev_n") or 0) if m.group("dev") else None
        self.local = None
        rel = list(self.release)
        while len(rel) > 1 and rel[-1] == 0:
            rel.pop()
        if self.pre is None and self.post is None and self.dev is not None:
            pre = NEG
        elif self.pre is None:
            pre = POS
        else:
            pre = _mid(self.pre)
        post = NEG if self.post is None else _mid(self.post)
        dev = POS if self.dev is None else _mid(self.dev)
        self.rank = (self.epoch, tuple(rel), pre, post, dev)

    def __repr__(self):
        return f"V({self.vstr()})"

    def __hash__(self):
        return hash(self.rank)

    def __eq__(self, o):
        return isinstance(o, VersionVal) and o.rank == self.rank

    def vstr(self):
        parts = []
        if self.epoch:
            parts.append(f"{self.epoch}!")
        parts.append(".".join(str(x) for x in self.release))
        if self.pre is not None:
            parts.append(f"{self.pre[0]}{self.pre[1]}")
        if self.post is not None:
            parts.append(f".post{self.post}")
        if self.dev is not None:
            parts.append(f".dev{self.dev}")
        return "".join(parts)

    # attribute model
    @property
    def vattr_epoch(self):
        return self.epoch

    @property
    def vattr_release(self):
        return self.release

    @property
    def vattr_pre(self):
        return self.pre

    @property
    def vattr_post(self):
        return self.post

    @property
    def vattr_dev(self):
        return self.dev

    @property
    def vattr_local(self):
        return None

    @property
    def vattr_is_prerelease(self):
        return self.pre is not None or self.dev is not None

    @property
    def vattr_is_postrelease(self):
        return self.post is not None

    @property
    def vattr_is_devrelease(self):
        return self.dev is not None

    @property
    def vattr_major(self):
        return self.release[0] if len(self.release) >= 1 else 0

    @property
    def vattr_minor(self):
        return self.release[1] if len(self.release) >= 2 else 0

    @property
    def vattr_micro(self):
        return self.release[2] if len(self.release) >= 3 else 0

    @property
    def vattr_base_version(self):
        return (f"{self.epoch}!" if self.epoch else "") + ".".join(str(x) for x in self.release)

    @property
    def vattr_public(self):
        return self.vstr()


def Version(text):
    if isinstance(text, VersionVal):
        return text
    if not isinstance(text, str):
        raise AnalysisError(f"Version() of non-text {text!r}")
    return VersionVal(text)


_VER = r"v?(?:[0-9]+!)?[0-9]+(?:\.[0-9]+)*"
_SUFFIX = (r"(?:[-_\.]?(?:alpha|a|beta|b|preview|pre|c|rc)[-_\.]?[0-9]*)?"
           r"(?:(?:-[0-9]+)|(?:[-_\.]?(?:post|rev|r)[-_\.]?[0-9]*))?"
           r"(?:[-_\.]?dev[-_\.]?[0-9]*)?")
_SPEC = re.compile(
    r"^\s*(?:"
    r"(?P<arb>===)\s*(?P<arbv>[^\s;)]*)"
    r"|(?P<eq>==|!=)\s*(?P<eqv>" + _VER + r"(?:\.\*|" + _SUFFIX + r"))"
    r"|(?P<compat>~=)\s*(?P<compatv>v?(?:[0-9]+!)?[0-9]+(?:\.[0-9]+)+" + _SUFFIX + r")"
    r"|(?P<ord><=|>=|<|>)\s*(?P<ordv>" + _VER + _SUFFIX + r")"
    r")\s*$", re.IGNORECASE)


class SpecifierVal(Sym):
    def __init__(self, text):
        m = _SPEC.match(text) if isinstance(text, str) else None
        if not m:
            raise PyRaise(BuiltinExcValue(EXC["PkgInvalidSpecifier"], (text,)))
        if m.group("arb"):
            self.op, self.ver = "===", m.group("arbv")
        elif m.group("eq"):
            self.op, self.ver = m.group("eq"), m.group("eqv")
        elif m.group("compat"):
            self.op, self.ver = "~=", m.group("compatv")
        else:
            self.op, self.ver = m.group("ord"), m.group("ordv")
        self.sym_operator = self.op
        self.sym_version = self.ver

    def __str__(self):
        return f"{self.op}{self.ver}"

    def __repr__(self):
        return f"Specifier({self})"

    def sym_contains(self, item, prereleases=None):
        if isinstance(item, str):
            v = Version(item)
        elif isinstance(item, VersionVal):
            v = item
        else:
            raise AnalysisError(f"Specifier.contains({item!r})")
        return contains(self.op, self.ver, v)


def _pad(a, b):
    n = max(len(a), len(b))
    return tuple(a) + (0,) * (n - len(a)), tuple(b) + (0,) * (n - len(b))


def contains(op, ver, v):
    """PEP 440 operator table.  Exact for final-release candidates (the only ones the checks use); for
    pre/post/dev candidates the exclusion rules of PEP 440 are implemented as written."""
    if op == "===":
        return v.text.lower() == ver.lower()
    if ver.endswith(".*"):
        s = VersionVal(ver[:-2])
        rel = v.release[: len(s.release)]
        a, b = _pad(rel, s.release)
        m = v.epoch == s.epoch and a == b
        return m if op == "==" else not m
    s = VersionVal(ver)
    if op == "==":
        return v.rank == s.rank
    if op == "!=":
        return v.rank != s.rank
    if op == "<=":
        return v.rank <= s.rank
    if op == ">=":
        return v.rank >= s.rank
    if op == "<":
        if not v.rank < s.rank:
            return False
        if not s.vattr_is_prerelease and v.vattr_is_prerelease and _base(v) == _base(s):
            return False
        return True
    if op == ">":
        if not v.rank > s.rank:
            return False
        if not s.vattr_is_postrelease and v.vattr_is_postrelease and _base(v) == _base(s):
            return False
        return True
    if op == "~=":
        if not v.rank >= s.rank:
            return False
        pre = s.release[:-1]
        a, b = _pad(v.release[: len(pre)], pre)
        return v.epoch == s.epoch and a == b
    raise AnalysisError(f"operator {op}")


def _base(v):
    rel = list(v.release)
    while len(rel) > 1 and rel[-1] == 0:
        rel.pop()
    return (v.epoch, tuple(rel))


class SpecifierSetVal(Sym):
    def __init__(self, text=""):
        if isinstance(text, SpecifierSetVal):
            text = str(text)
        if not isinstance(text, str):
            raise AnalysisError(f"SpecifierSet({text!r})")
        parts = [p.strip() for p in text.split(",") if p.strip()]
        self.specs = [SpecifierVal(p) for p in parts]

    def __str__(self):
        return ",".join(sorted(str(s) for s in self.specs))

    def __repr__(self):
        return f"SpecifierSet({self})"

    def sym_iter(self):
        return list(self.specs)

    def sym_len(self):
        return len(self.specs)

    def sym_contains(self, item, prereleases=None):
        return all(s.sym_contains(item) for s in self.specs)


def install(it):
    """register the packaging model as the external summaries of an Interp."""
    it.opaque_calls["Version"] = Version
    it.opaque_calls["Specifier"] = SpecifierVal
    it.opaque_calls["SpecifierSet"] = SpecifierSetVal
    it.opaque_calls["default_environment"] = lambda: {}
    it.opaque_calls["packaging.utils.canonicalize_version"] = canonicalize_version
    it.opaque_calls["packaging.utils.canonicalize_name"] = lambda name, validate=False: re.sub(r"[-_.]+", "-", name).lower()
    return it


def canonicalize_version(version, strip_trailing_zero=True):
    """packaging.utils.canonicalize_version (documented behaviour): the normal form with the trailing zero release segments removed;
    text that is not a version is returned unchanged."""
    if isinstance(version, str):
        try:
            v = VersionVal(version)
        except PyRaise:
            return version
    elif isinstance(version, VersionVal):
        v = version
    else:
        raise AnalysisError(f"canonicalize_version of {version!r}")
    rel = list(v.release)
    if strip_trailing_zero:
        while len(rel) > 1 and rel[-1] == 0:
            rel.pop()
    parts = []
    if v.epoch:
        parts.append(f"{v.epoch}!")
    parts.append(".".join(str(x) for x in rel))
    if v.pre is not None:
        parts.append(f"{v.pre[0]}{v.pre[1]}")
    if v.post is not None:
        parts.append(f".post{v.post}")
    if v.dev is not None:
        parts.append(f".dev{v.dev}")
    return "".join(parts)
