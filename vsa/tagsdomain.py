"""Partial evaluation of dep_logic.tags (C08, C09, C16, C18; DESIGN.md §2.3 / §4).

`EnvSpec._evaluate_python` is specialised on static (implementation, python tag, abi tag) triples with
`requires_python` kept SYMBOLIC: it may only flow into `<template> & requires_python` followed by
`.is_empty()`, whose symbolic boolean FORKS (both outcomes explored).  The residual of every specialisation is
`None`, or `None if empty(TEMPLATE & requires_python) else score`.  TEMPLATE texts are given meaning by the
PEP 440 model over a grid of interpreter versions and compared with the PEP 425/3149/703 rule table below.
"""
from __future__ import annotations

import re

from .absint import (AObj, AnalysisError, Bound, BuiltinExcValue, EXC, Interp, MISSING, PyRaise, Sym, SymBool)
from . import pkgmodel


class SymSpec(Sym):
    def __init__(self, text):
        self.text = text

    def __repr__(self):
        return f"SPEC({self.text})"

    def sym_and(self, other):
        if not isinstance(other, ReqPy):
            raise AnalysisError("wheel-range template combined with something other than requires_python")
        return SymInter(self.text)


_OBJ_TEMPLATES = {}


def _describe(o):
    """stable structural label of a specifier object (same on every fork of the symbolic execution)"""
    n = o.cls.name
    if n == "RangeSpecifier":
        lo, hi = o.f.get("min"), o.f.get("max")
        return (f"Range[{'-inf' if lo is None else lo.vstr()}{'i' if o.f.get('include_min') else 'x'},"
                f"{'+inf' if hi is None else hi.vstr()}{'i' if o.f.get('include_max') else 'x'}]")
    if n == "UnionSpecifier":
        return "Union(" + ";".join(_describe(r) for r in o.f.get("ranges") or ()) + ")"
    return n


class ReqPy(Sym):
    strict_isinstance = True   # code that inspects requires_python (isinstance / attributes) is not parametric in it

    def __repr__(self):
        return "REQUIRES_PYTHON"

    def sym_and(self, other):
        if isinstance(other, AObj):
            # a wheel range built directly from the specifier classes instead of parse_version_specifier(text)
            label = "object:" + _describe(other)
            _OBJ_TEMPLATES[label] = other
            return SymInter(label)
        if not isinstance(other, SymSpec):
            raise AnalysisError("requires_python combined with something other than a wheel-range template")
        return SymInter(other.text)


class SymInter(Sym):
    def __init__(self, text):
        self.text = text

    def sym_is_empty(self):
        return SymBool(f"empty({self.text})")


GRID = [(M, m, p) for M in (2, 3, 4) for m in range(0, 23) for p in (0, 5)]


def template_set(text):
    """set of grid interpreters admitted by a template text, under the PEP 440 model."""
    ss = pkgmodel.SpecifierSetVal(text)
    out = set()
    for (M, m, p) in GRID:
        if ss.sym_contains(pkgmodel.Version(f"{M}.{m}.{p}")):
            out.add((M, m, p))
    return frozenset(out)


FLAGS = "dmut"


def rule_table(ptag, abi, impl):
    """PEP 425 / 3149 / 703 as C08 states it -> None | (admitted interpreter set on GRID, (major, minor, rank))."""
    m = re.fullmatch(r"([a-z]{2})(\d)(\d*)", ptag)
    if not m:
        return None
    pimpl, X, Y = m.group(1), int(m.group(2)), (int(m.group(3)) if m.group(3) else None)
    short = None if impl is None else {"cpython": "cp", "pypy": "pp", "pyston": "pt"}[impl[0]]
    gil = None if impl is None else impl[1]
    if short is not None and pimpl not in (short, "py"):
        return None
    a = abi.split("_", 1)[0].replace("pypy", "pp").replace("pyston", "pt").lower()
    if a == "abi3":
        if pimpl != "cp" or gil:
            return None
        return (frozenset(g for g in GRID if (g[0], g[1]) >= (X, Y or 0)), (X, Y or 0, 1))
    if a != "none":
        mm = re.fullmatch(re.escape(ptag.lower()) + r"([" + FLAGS + r"]*)", a)
        if not mm:
            return None
        if gil is not None and (("t" in mm.group(1)) != gil):
            return None
    rank = 0 if a == "none" else 2
    if Y is None:
        return (frozenset(g for g in GRID if g[0] == X), (X, 0, rank))
    if pimpl == "py":
        return (frozenset(g for g in GRID if g[0] == X and g[1] >= Y), (X, Y, rank))
    return (frozenset(g for g in GRID if g[0] == X and g[1] == Y), (X, Y, rank))


def python_tags():
    return [f"{i}{X}{Y}" for i in ("cp", "py", "pp", "pt") for X in (2, 3) for Y in ("", 0, 7, 10, 13, 20)]


def abi_tags(pt):
    out = ["none", "abi3", pt, pt + "m", pt + "t", pt + "d", pt + "dm", pt + "mu"]
    X, Y = pt[2], pt[3:]
    out.append(f"{pt[:2]}{X}{(int(Y) + 1) if Y else 9}")  # other minor
    if Y and len(Y) == 1:
        out.append(pt + "0")       # prefix trap: cp37 vs cp370
        out.append(pt + "0t")
    if pt.startswith("pp") and Y:
        out.append(f"pypy{X}{Y}_pp73")
        out.append(f"pypy{X}{int(Y) + 1}_pp73")
    if pt.startswith("pt") and Y:
        out.append(f"pyston{X}{Y}_23")
    out.append("cp" + pt[2:] if not pt.startswith("cp") else "pp" + pt[2:])  # other implementation's abi
    return out


IMPLS = [None, ("cpython", False), ("cpython", True), ("pypy", False), ("pyston", False)]


class TagsDomain:
    def __init__(self, src):
        self.it = it = Interp(src)
        pkgmodel.install(it)
        try:
            self.tm = it.module("dep_logic.tags.tags")
            self.pm = it.module("dep_logic.tags.platform")
            self.om = it.module("dep_logic.tags.os")
        except (OSError, SyntaxError) as e:
            raise AnalysisError(f"cannot load tags modules: {e}")
        for n in ("EnvSpec", "Implementation", "EnvCompatibility"):
            if n not in self.tm.ns:
                raise AnalysisError(f"anchor dep_logic.tags.tags:{n} missing")
        self.EnvSpec = it.resolve(self.tm.ns["EnvSpec"])
        self.Impl = it.resolve(self.tm.ns["Implementation"])
        self.Platform = it.resolve(self.pm.ns["Platform"])
        self.Arch = it.resolve(self.pm.ns["Arch"])
        self.InvalidSpecifier = it.resolve(self.tm.ns["InvalidSpecifier"])
        self.templates = {}

    # -- symbolic mode: parse_version_specifier -> template
    def symbolic(self):
        def pvs(text):
            if not isinstance(text, str):
                raise AnalysisError(f"parse_version_specifier({text!r})")
            try:
                pkgmodel.SpecifierSetVal(text)
            except PyRaise:
                raise PyRaise(self.it.construct(self.InvalidSpecifier, [], {}))
            return SymSpec(text)
        self.it.overrides["dep_logic.specifiers:parse_version_specifier"] = pvs

    def concrete(self):
        self.it.overrides.pop("dep_logic.specifiers:parse_version_specifier", None)

    def impl(self, spec):
        if spec is None:
            return None
        return self.it.construct(self.Impl, [spec[0], spec[1]], {})

    def envspec(self, rp, platform=None, impl=None):
        return self.it.construct(self.EnvSpec, [rp, platform, self.impl(impl)], {})

    def py_eval(self, spec, ptag, abi):
        """the python/abi score of one tag pair for an EnvSpec: through the private helper `_evaluate_python` while it exists, otherwise
        through the public `compatibility()` on singleton lists (its last component is the platform score and is dropped)"""
        it = self.it
        f, _ = self.EnvSpec.lookup("_evaluate_python")
        if f is not MISSING:
            return it.call(Bound(f, spec), [ptag, abi], {})
        comp, _ = self.EnvSpec.lookup("compatibility")
        if comp is MISSING:
            raise AnalysisError("anchor EnvSpec.compatibility missing")
        r = it.call(Bound(comp, spec), [[ptag], [abi], ["any"]], {})
        return None if r is None else tuple(r)[:-1]

    def plat_eval(self, spec, tag):
        """the platform score of one platform tag (private helper `_evaluate_platform`, or the last component of `compatibility()`)"""
        it = self.it
        f, _ = self.EnvSpec.lookup("_evaluate_platform")
        if f is not MISSING:
            return it.call(Bound(f, spec), [tag], {})
        comp, _ = self.EnvSpec.lookup("compatibility")
        if comp is MISSING:
            raise AnalysisError("anchor EnvSpec.compatibility missing")
        r = it.call(Bound(comp, spec), [["py3"], ["none"], [tag]], {})
        return None if r is None else tuple(r)[-1]

    def residual(self, impl, ptag, abi):
        """-> None | ("cond", template text, score) | ("always", score) | ("weird", description)"""
        it = self.it
        spec = self.envspec(ReqPy(), None, impl)
        outs = it.run_forks(lambda: self.py_eval(spec, ptag, abi))
        if len(outs) == 1:
            dec, (kind, val) = outs[0]
            if kind == "ok" and val is None:
                return None
            if kind == "ok" and isinstance(val, tuple) and not dec:
                return ("always", val)
            return ("weird", f"{kind}:{val!r}")
        if len(outs) == 2:
            (d0, r0), (d1, r1) = outs
            if len(d0) == 1 and len(d1) == 1 and d0[0][0] == d1[0][0]:
                lab = d0[0][0]
                nonempty = r0 if d0[0][1] is False else r1
                empty = r1 if d0[0][1] is False else r0
                if empty == ("ok", None) and nonempty[0] == "ok" and isinstance(nonempty[1], tuple) and lab.startswith("empty("):
                    return ("cond", lab[6:-1], nonempty[1])
                return ("weird", f"empty->{empty!r} nonempty->{nonempty!r}")
        return ("weird", f"{len(outs)} outcomes: {outs!r}"[:300])

    def tset(self, text):
        if text in _OBJ_TEMPLATES:
            return self.object_set(_OBJ_TEMPLATES[text])
        if text not in self.templates:
            self.templates[text] = template_set(text)
        return self.templates[text]

    def object_set(self, s):
        """grid interpreters admitted by a specifier OBJECT (interval semantics over its bounds)."""
        def member(o, v):
            n = o.cls.name
            if n == "EmptySpecifier":
                return False
            if n == "AnySpecifier":
                return True
            if n == "RangeSpecifier":
                lo, hi = o.f.get("min"), o.f.get("max")
                okl = lo is None or v.rank > lo.rank or (v.rank == lo.rank and o.f.get("include_min"))
                okh = hi is None or v.rank < hi.rank or (v.rank == hi.rank and o.f.get("include_max"))
                return bool(okl and okh)
            if n == "UnionSpecifier":
                return any(member(r, v) for r in o.f.get("ranges") or ())
            raise AnalysisError(f"wheel range of unexpected class {n}")
        return frozenset(g for g in GRID if member(s, pkgmodel.Version(f"{g[0]}.{g[1]}.{g[2]}")))


# ------------------------------------------------------------------------------------------------ concrete requires_python grid
# bounds deliberately fall on minors of the tag vocabulary (0, 7, 10, 13, 20) with micro components, inclusive/exclusive ends,
# single points, unions and exclusions — narrow/wide pairs for the monotonicity clause included
RP_GRID = [">=3.8", "<3.8", "<3.7.5", ">=3.6,<3.7.5", "==3.7.2", ">=3.7.1,<3.7.5,!=3.7.3", "<3.10.3", ">=3.7,<3.10.3", "==3.10.0", "<=3.10",
           ">=3.7,<=3.10.0", "<3.7||==3.13.0", "!=3.10.*", ">=2.7,<3.13.2", "<2.7.5", "~=3.10.1", ">3.10.5", ">=3.7.3,<3.7.9", "<3.0.1",
           "==3.*", ">=4", ">=3.8,<3.11.4", "<3.8||==3.12.0", ">=3.6,<3.10", "<=3.7", "<3.13", "==3.13.*", ">=3.20.1"]
FINE = [(M, m, p) for M in (2, 3, 4) for m in list(range(0, 15)) + [20, 21] for p in (0, 1, 2, 3, 4, 5, 8, 9)]


def rp_fine_set(text):
    def one(t, v):
        if "||" in t:
            return any(one(x, v) for x in t.split("||"))
        return pkgmodel.SpecifierSetVal(t).sym_contains(v)
    return frozenset(g for g in FINE if one(text, pkgmodel.Version(f"{g[0]}.{g[1]}.{g[2]}")))


def concrete_work(task):
    """-> list of (rp_text, impl, ptag, abi, got, expected) mismatches + count, for one requires_python text"""
    src, rp_text = task
    dom = TagsDomain(src)
    it = dom.it
    pvs = it.resolve(it.module("dep_logic.specifiers").ns["parse_version_specifier"])
    rp = it.call(pvs, [rp_text], {})
    rpset = rp_fine_set(rp_text)
    out, n = [], 0
    table = {}
    for impl in IMPLS:
        spec = dom.envspec(rp, None, impl)
        for pt in python_tags():
            for abi in abi_tags(pt):
                n += 1
                try:
                    r = dom.py_eval(spec, pt, abi)
                    got = None if r is None else tuple(r)
                except PyRaise as e:
                    got = ("raise", repr(e.exc))
                exp = rule_table(pt, abi, impl)
                if exp is not None:
                    mm = {(g[0], g[1]) for g in exp[0]}
                    exp = exp[1] if any((g[0], g[1]) in mm for g in rpset) else None
                table[(impl, pt, abi)] = got
                if got != exp:
                    out.append((rp_text, impl, pt, abi, got, exp))
    return {"n": n, "mismatches": out, "rp": rp_text, "accepted": {k for k, v in table.items() if v is not None and not (isinstance(v, tuple) and v and v[0] == "raise")}}
