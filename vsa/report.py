"""Reporting, evidence and known-findings plumbing shared by every check (DESIGN.md §2.5).

Exit codes: 0 = every decided clause holds (or only listed findings), 1 = unlisted violation
(`VIOLATION property=<id> replay=<path>` printed), 2 = ANALYSIS-ERROR (fail closed).
"""
from __future__ import annotations

import json
import os
import pathlib
import re
import time

VERIF = pathlib.Path(__file__).resolve().parent.parent
EVIDENCE_DIR = pathlib.Path(os.environ.get("VERIF_EVIDENCE_DIR") or (VERIF / "evidence"))
REPLAY_DIR = EVIDENCE_DIR / "replay"
KNOWN_FINDINGS = VERIF / "known_findings.json"


class AnalysisBroken(Exception):
    """The analysis cannot decide (anchor missing, unsupported construct, vacuous rule)."""


def norm(text: str) -> str:
    """Normalise statement text for construct keys (whitespace/quote insensitive)."""
    return re.sub(r"\s+", " ", text.replace('"', "'")).strip()


def load_known(path=KNOWN_FINDINGS):
    if not path.exists():
        return []
    data = json.loads(path.read_text())
    return data.get("findings", [])


class Check:
    def __init__(self, pid, tier="quick", seed=0, repo="/repo", replay=None):
        self.pid = pid
        self.tier = tier
        self.seed = seed
        self.repo = pathlib.Path(repo)
        self.src = self.repo / "src"
        self.replay = replay
        self.t0 = time.time()
        self.obligations = 0
        self.discharged = 0
        self.evaluations = 0
        self.nontrivial = set()
        self.samples = []
        self.violations = []  # dict(rule, construct, what, detail)
        self.known_hits = []
        self.rules = {}  # rule id -> dict(desc, instances, obligations, failed)
        self.analysed = {}
        self.assumptions = []
        self.trusted = []
        self.notes = []
        self.exhaustive = None
        self.explanation = ""
        self.extra = {}
        self._known = [k for k in load_known() if k.get("property") == pid and k.get("status", "open") == "open"]
        self._seen_viol = set()

    def reset(self):
        """forget everything recorded so far (used when a check restarts in a fallback domain)."""
        notes = list(self.notes)
        jobs = getattr(self, "jobs", 1)
        self.__init__(self.pid, tier=self.tier, seed=self.seed, repo=str(self.repo), replay=self.replay)
        self.jobs = jobs
        self.notes = notes

    # ------------------------------------------------------------------ bookkeeping
    def rule(self, rid, desc, min_instances=None):
        r = self.rules.setdefault(rid, {"desc": desc, "instances": 0, "obligations": 0, "failed": 0,
                                        "min_instances": min_instances})
        return r

    def instance(self, rid, n=1):
        self.rules[rid]["instances"] += n

    def ok(self, rid, key=None, nontrivial=True, n=1):
        """Record discharged obligation(s) of rule `rid`."""
        self.obligations += n
        self.discharged += n
        self.evaluations += n
        self.rules[rid]["obligations"] += n
        if nontrivial and key is not None:
            self.nontrivial.add((rid, key))

    def count_eval(self, n=1):
        self.evaluations += n

    def sample(self, s, limit=12):
        if len(self.samples) < limit:
            self.samples.append(s)

    def fail(self, rid, construct, what, detail=None):
        """Record a violated obligation, blamed on `construct` (module:qualname[:stmt])."""
        self.obligations += 1
        self.evaluations += 1
        self.rules[rid]["obligations"] += 1
        key = (rid, construct)
        if key in self._seen_viol:
            return
        self._seen_viol.add(key)
        self.rules[rid]["failed"] += 1
        for k in self._known:
            if k.get("rule") == rid and k.get("construct_key") == construct:
                self.known_hits.append((k, what))
                return
        self.violations.append({"rule": rid, "construct": construct, "what": what, "detail": detail})

    def broken(self, msg):
        raise AnalysisBroken(msg)

    def require(self, cond, msg):
        if not cond:
            raise AnalysisBroken(msg)

    # ------------------------------------------------------------------ finish
    def finish(self):
        for rid, r in self.rules.items():
            mi = r.get("min_instances")
            if mi is not None and r["instances"] < mi:
                raise AnalysisBroken(
                    f"rule {rid} matched {r['instances']} instance(s), fewer than the {mi} confirmed by hand "
                    f"(vacuous rule / anchor moved)")
        wall = time.time() - self.t0
        cov = {
            "explanation": self.explanation or "static analysis of /repo source; see rules",
            "evaluations": max(self.evaluations, 1),
            "distinct_nontrivial": len(self.nontrivial),
            "rule": self.extra.pop("rule_text", "obligations are (rule, construct/abstract input) pairs derived from "
                                   "the current source; non-trivial = needed more than a constant/identity path"),
            "samples": self.samples or ["<none>"],
            "obligations": self.obligations,
            "discharged": self.discharged,
            "checker_cmd": f"./check {self.pid}",
            "trusted_base": self.trusted,
            "rules": {k: {kk: vv for kk, vv in v.items()} for k, v in self.rules.items()},
            "analysed": self.analysed,
            "known_findings_hit": [{"rule": k["rule"], "construct_key": k["construct_key"]} for k, _ in self.known_hits],
            "notes": self.notes,
        }
        if self.exhaustive is not None:
            cov["exhaustive"] = self.exhaustive
        cov.update(self.extra)
        ev = {
            "property_id": self.pid,
            "tier": self.tier,
            "seed": int(self.seed),
            "level": "other",
            "coverage": cov,
            "assumptions": self.assumptions,
            "wall_s": round(wall, 3),
            "violations": len(self.violations),
        }
        EVIDENCE_DIR.mkdir(exist_ok=True)
        out = EVIDENCE_DIR / f"{self.pid}.json"
        out.write_text(json.dumps(ev, indent=1, default=str) + "\n")
        for k, what in self.known_hits:
            print(f"KNOWN-FINDING: property={self.pid} {k['rule']} {k['construct_key']} :: {what}")
        if self.violations:
            REPLAY_DIR.mkdir(parents=True, exist_ok=True)
            for i, v in enumerate(self.violations):
                rp = REPLAY_DIR / f"{self.pid}-{i}.json"
                rp.write_text(json.dumps({"property": self.pid, **v}, indent=1, default=str) + "\n")
                print(f"[{self.pid}] rule {v['rule']} violated at {v['construct']}: {v['what']}")
                if v.get("detail"):
                    print(f"    detail: {json.dumps(v['detail'], default=str)[:1500]}")
                print(f"VIOLATION property={self.pid} replay={rp}")
            return 1
        print(f"[{self.pid}] OK tier={self.tier} obligations={self.obligations} discharged={self.discharged} "
              f"distinct_nontrivial={len(self.nontrivial)} known_findings={len(self.known_hits)} wall={wall:.1f}s")
        return 0
