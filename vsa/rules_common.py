"""Small syntax-directed rules shared by several properties (RULES engine, DESIGN.md §2.2)."""
from __future__ import annotations

import ast
import pathlib

from .report import norm


def iter_sources(chk, sub=("markers", "specifiers", "tags", "")):
    root = chk.src / "dep_logic"
    files = sorted(root.rglob("*.py"))
    chk.require(files, f"no sources under {root}")
    for f in files:
        rel = f.relative_to(root).as_posix()
        try:
            tree = ast.parse(f.read_text(), filename=str(f))
        except SyntaxError as e:
            chk.broken(f"cannot parse {rel}: {e}")
        yield rel, tree


def qualname_map(tree):
    """node -> enclosing qualname for every FunctionDef/ClassDef"""
    out = {}

    def rec(node, prefix):
        for ch in ast.iter_child_nodes(node):
            if isinstance(ch, (ast.FunctionDef, ast.AsyncFunctionDef, ast.ClassDef)):
                q = f"{prefix}.{ch.name}" if prefix else ch.name
                out[ch] = q
                rec(ch, q)
            else:
                rec(ch, prefix)
    rec(tree, "")
    return out


def functions(tree):
    qm = qualname_map(tree)
    for node, q in qm.items():
        if isinstance(node, (ast.FunctionDef, ast.AsyncFunctionDef)):
            yield q, node


PURE_CTOR_HINT = ("Marker", "Specifier", "Union", "OrderedSet")


def discarded_results(chk, rid):
    """Expression statements whose value is a call to a class-like name (CamelCase) or a comparison/binop:
    the computed value is dropped.  Positive control: a synthetic snippet must match on every run."""
    def scan(tree):
        hits = []
        for q, fn in functions(tree):
            for st in ast.walk(fn):
                if isinstance(st, ast.Expr) and not isinstance(st.value, (ast.Constant,)):
                    v = st.value
                    if isinstance(v, ast.Call):
                        f = v.func
                        name = f.id if isinstance(f, ast.Name) else (f.attr if isinstance(f, ast.Attribute) else "")
                        if name[:1].isupper() and not name.isupper():
                            hits.append((q, st))
                    elif isinstance(v, (ast.Compare, ast.BinOp, ast.BoolOp, ast.Name, ast.Attribute, ast.UnaryOp)):
                        hits.append((q, st))
        return hits
    control = ast.parse("def f(x):\n    if x:\n        AnyMarker()\n    return x\n")
    chk.require(len(scan(control)) == 1, "positive control of the discarded-result rule did not match")
    chk.instance(rid)
    nfun = 0
    for rel, tree in iter_sources(chk):
        nfun += sum(1 for _ in functions(tree))
        for q, st in scan(tree):
            mod = "dep_logic." + rel[:-3].replace("/", ".")
            chk.fail(rid, f"{mod}:{q}:{norm(ast.unparse(st))}", f"value of `{ast.unparse(st)}` is computed and dropped (missing return?) at {rel}:{st.lineno}")
    chk.ok(rid, key="scan", n=1)
    chk.analysed["functions_scanned_R02.6"] = nfun
