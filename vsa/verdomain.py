"""Concrete-version specifier domain for ABSINT (C04, C06, C11, C17): the repository's specifier classes are
interpreted from source with `packaging` replaced by the PEP 440 model (vsa/pkgmodel.py)."""
from __future__ import annotations

import ast

from .absint import AObj, AnalysisError, Bound, BuiltinExcValue, EXC, Interp, MISSING, PyRaise
from . import pkgmodel

AND, OR = ast.BitAnd(), ast.BitOr()


class VerDomain:
    def __init__(self, src):
        self.it = it = Interp(src)
        pkgmodel.install(it)
        try:
            self.sp = it.module("dep_logic.specifiers")
        except (OSError, SyntaxError) as e:
            raise AnalysisError(f"cannot load dep_logic.specifiers: {e}")

        def need(name):
            if name not in self.sp.ns:
                raise AnalysisError(f"anchor dep_logic.specifiers:{name} missing")
            return it.resolve(self.sp.ns[name])
        self.parse_fn = need("parse_version_specifier")
        self.Range = need("RangeSpecifier")
        self.Union = need("UnionSpecifier")
        self.Empty = need("EmptySpecifier")
        self.Any = need("AnySpecifier")
        self.Arb = need("ArbitrarySpecifier")
        self.InvalidSpecifier = need("InvalidSpecifier")

    def V(self, text):
        return pkgmodel.Version(text)

    def parse(self, text):
        return self.it.call(self.parse_fn, [text], {})

    def rng(self, lo=None, hi=None, il=False, ih=False):
        kw = {}
        if lo is not None:
            kw.update(min=lo, include_min=il)
        if hi is not None:
            kw.update(max=hi, include_max=ih)
        return self.it.construct(self.Range, [], kw)

    def union(self, *ranges):
        return self.it.construct(self.Union, [tuple(ranges)], {})

    def op(self, opn, a, b=None):
        it = self.it
        it.trace.clear()
        if opn == "&":
            return it.binop(AND, a, b)
        if opn == "|":
            return it.binop(OR, a, b)
        f, _ = a.cls.lookup("__invert__")
        return it.call(Bound(f, a), [], {})

    def text(self, s):
        self.it.trace.clear()
        return self.it.to_str(s)

    def contains(self, s, vtext):
        return self.it.truth(self.it.contains(s, vtext))

    def eq(self, a, b):
        return self.it.py_eq(a, b) and self.it.py_eq(b, a)

    def path(self, k=10):
        return [f"{fn.split(':')[-1]}@L{ln}={'T' if c is True else 'F' if c is False else c}" for fn, ln, c in self.it.trace[-k:]]

    def blame(self, default):
        return self.it.trace[-1][0] if self.it.trace else default

    def show(self, s):
        if not isinstance(s, AObj):
            return repr(s)
        if s.cls is self.Empty:
            return "<empty>"
        if s.cls is self.Any:
            return "<any>"
        if s.cls is self.Range:
            lo, hi = s.f.get("min"), s.f.get("max")
            l = "(-inf" if lo is None else ("[" if s.f.get("include_min") else "(") + lo.vstr()
            h = "+inf)" if hi is None else hi.vstr() + ("]" if s.f.get("include_max") else ")")
            return f"{l},{h}"
        if s.cls is self.Union:
            return " U ".join(self.show(r) for r in s.f.get("ranges"))
        if s.cls is self.Arb:
            return f"==={s.f.get('target')}"
        return repr(s)

    def exc_name(self, e):
        exc = e.exc
        if isinstance(exc, AObj):
            return exc.cls.name
        if isinstance(exc, BuiltinExcValue):
            return exc.cls.name
        return repr(exc)
